"""YAMLObject subclasses used by C13 documents: registered (through the documented yaml_loader list) on every shipped loader
class, so they load at the safe level.  Kept apart from canary_objs because importing this module customises shipped classes."""
import yaml

_LOADERS = [yaml.SafeLoader, yaml.FullLoader, yaml.UnsafeLoader, yaml.Loader]
if yaml.__with_libyaml__:
    _LOADERS += [yaml.CSafeLoader, yaml.CFullLoader, yaml.CUnsafeLoader, yaml.CLoader]


class YNode(yaml.YAMLObject):
    """instance dict only"""
    yaml_tag = "!ynode"
    yaml_loader = _LOADERS

    def __repr__(self):
        return "YNode(%s)" % sorted(self.__dict__)


class YNodeS(yaml.YAMLObject):
    """instance dict filled through __setstate__ (its state is constructed deeply)"""
    yaml_tag = "!ynodes"
    yaml_loader = _LOADERS

    def __setstate__(self, state):
        self.__dict__.update(state)

    def __repr__(self):
        return "YNodeS(%s)" % sorted(self.__dict__)
