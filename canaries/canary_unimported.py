"""Canary module that is on sys.path but must never be imported by a load: importing it leaves a mark."""
import sys
sys.modules.setdefault("__canary_marks__", type(sys)("__canary_marks__")).unimported = True


def func(*a, **k):
    return "called"


VALUE = 1
