"""A package whose submodule name is shadowed by an attribute of the package (as unittest.main is): after this import,
canary_shapes.circle is the *function*, while sys.modules['canary_shapes.circle'] is the module."""
from .circle import circle, Circle  # noqa: F401
