def circle(r=1):
    return Circle(r)


class Circle:
    def __init__(self, r=1):
        self.r = r

    def __eq__(self, other):
        return type(other) is Circle and self.__dict__ == other.__dict__

    __hash__ = None
