"""What an application does before it reads documents with the full loader: it defines YAMLObject classes (registered, through the
default yaml_loader list, on Loader, FullLoader and UnsafeLoader under their own application tag) and derives further classes from
them that do not declare a tag of their own.  Nothing here may become constructible through a python/object* tag under full_load."""
import yaml


class Base(yaml.YAMLObject):
    yaml_tag = "!c04-base"

    def __init__(self, v=None):
        self.v = v


class Derived(Base):
    """Inherits the tag; dumped generically as !!python/object:canary_app.Derived by the unsafe dumper."""


class DerivedWithState(Base):
    def __setstate__(self, state):
        import canary_imported
        canary_imported.record("derived-setstate")
        self.__dict__.update(state)
