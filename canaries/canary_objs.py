"""Plain classes used by C13/C17 documents (loaded by the unsafe loaders only)."""


class Node:
    """instance dict only"""

    def __repr__(self):
        return "Node(%s)" % sorted(self.__dict__)


class NodeS:
    """instance dict filled through __setstate__ (the loaders construct the state of such classes deeply)"""

    def __setstate__(self, state):
        self.__dict__.update(state)

    def __repr__(self):
        return "NodeS(%s)" % sorted(self.__dict__)


# ------------------------------------------------------------------------------------------------------------------
# class family for C17: one class per reduction shape of the copy/pickle protocol
import collections
import dataclasses
import enum


class Plain:
    """instance __dict__ only"""


class Slots:
    __slots__ = ("a", "b")

    def __init__(self, a=None, b=None):
        self.a = a
        self.b = b


class SlotsDict:
    __slots__ = ("a", "__dict__")

    def __init__(self, a=None):
        self.a = a


class GetSet:
    """custom state through __getstate__ / __setstate__"""

    def __init__(self, payload=None):
        self.payload = payload
        self.derived = ("derived", payload is None)

    def __getstate__(self):
        return {"p": self.payload}

    def __setstate__(self, state):
        self.payload = state["p"]
        self.derived = ("derived", self.payload is None)


class NewArgs:
    """__new__ needs arguments, supplied by __getnewargs__"""

    def __new__(cls, tag, size):
        self = object.__new__(cls)
        self.tag = tag
        self.size = size
        return self

    def __getnewargs__(self):
        return (self.tag, self.size)


def rebuild(kind, *args):
    r = Reduced(kind)
    r.args = args
    return r


class Reduced(list):
    """__reduce__ returning 2-5 tuples (callable, args[, state[, listitems[, dictitems]]]); list subclass with a dict of extras"""

    def __init__(self, kind=2):
        list.__init__(self)
        self.kind = kind
        self.args = ()
        self.extra = {}

    def __setitem__(self, k, v):
        if isinstance(k, int):
            list.__setitem__(self, k, v)
        else:
            self.extra[k] = v

    def __reduce__(self):
        base = (rebuild, (self.kind,) + tuple(self.args))
        if self.kind == 2:
            return base
        # the state never overlaps with what the dict items rebuild: copy applies state before items, pickle after
        state = {"kind": self.kind, "args": self.args}
        if self.kind < 5:
            state["extra"] = self.extra
        if self.kind == 3:
            return base + (state,)
        if self.kind == 4:
            return base + (state, iter(list(self)))
        return base + (state, iter(list(self)), iter(list(self.extra.items())))


class ListSub(list):
    pass


class DictSub(dict):
    pass


class SetSub(set):
    pass


class ODSub(collections.OrderedDict):
    """OrderedDict subclass: items plus (possibly no) instance attributes"""


class ODSlots(collections.OrderedDict):
    """OrderedDict subclass whose own state lives in a slot and whose __init__ takes no items"""
    __slots__ = ("limit",)

    def __init__(self):
        super().__init__()
        self.limit = None


class TupleSub(tuple):
    pass


class StrSub(str):
    pass


class IntSub(int):
    pass


class Color(enum.Enum):
    RED = 1
    GREEN = "g"


Point = collections.namedtuple("Point", ["x", "y"])


@dataclasses.dataclass(frozen=True)
class Frozen:
    """state-dependent __hash__"""
    x: int
    y: str = "y"


def func(x=None):
    return x


# a class whose reduction is registered with copyreg (pickle protocol 2 gives the dispatch table priority over __reduce_ex__)
import copyreg


class Registered:
    def __init__(self, key, cache=None):
        self.key = key
        self.cache = cache if cache is not None else ["filled", "lazily"]


def make_registered(key):
    return Registered(key, cache=[])


def _reduce_registered(obj):
    # the cache is deliberately not part of the reduction
    return make_registered, (obj.key,)


copyreg.pickle(Registered, _reduce_registered)


class RegisteredSub(Registered):
    """a subclass of a copyreg-registered class: the registration is for the exact type only (as in pickle)"""

    def __init__(self, key, extra=None):
        Registered.__init__(self, key)
        self.extra = extra


class ComplexSub(complex):
    """complex is registered in copyreg.dispatch_table; its subclasses are not"""


import datetime as _dt
_EPOCH = _dt.datetime(2000, 1, 1)


class Stamp:
    """Its state is computed afresh by every __getstate__ call: a datetime and a complex number that exist only while the
    object is being dumped (temporaries of a kind the dumper may anchor)."""

    def __init__(self, n):
        self.n = n

    def __getstate__(self):
        return {"when": _EPOCH + _dt.timedelta(seconds=self.n), "z": complex(self.n, 0.5)}

    def __setstate__(self, state):
        self.n = int((state["when"] - _EPOCH).total_seconds())
        self.z_real = state["z"].real


def make_phasor(z):
    return Phasor(z.real, z.imag)


class Phasor:
    """Reduces to a call with a freshly built complex argument."""

    def __init__(self, r, i):
        self.r, self.i = r, i

    def __reduce__(self):
        return (make_phasor, (complex(self.r, self.i),))


class Tally(dict):
    """A dict subclass whose __setitem__ maintains something that is not part of the pickled state: the reduction protocol
    restores dict items by item assignment, so the total is rebuilt by loading."""

    def __init__(self):
        super().__init__()
        self.total = 0          # (nothing order-dependent: sort_keys may reorder the items of a dict subclass, a listed finding)

    def __setitem__(self, key, value):
        super().__setitem__(key, value)
        self.total += 1

    def __reduce__(self):
        return (Tally, (), None, None, iter(self.items()))


class Journal(list):
    """The list counterpart: items come back through append / extend."""

    def __init__(self):
        super().__init__()
        self.count = 0

    def append(self, item):
        super().append(item)
        self.count += 1

    def extend(self, items):
        for i in items:
            self.append(i)

    def __reduce__(self):
        return (Journal, (), None, iter(self))
