"""Plain classes used by C13/C17 documents (loaded by the unsafe loaders only)."""


class Node:
    """instance dict only"""

    def __repr__(self):
        return "Node(%s)" % sorted(self.__dict__)


class NodeS:
    """instance dict filled through __setstate__ (the loaders construct the state of such classes deeply)"""

    def __setstate__(self, state):
        self.__dict__.update(state)

    def __repr__(self):
        return "NodeS(%s)" % sorted(self.__dict__)
