"""Canary module that the safety checks import *before* arming the monitors.  Everything a document could
make the library do to one of these objects records itself in CALLS."""
import collections.abc

CALLS = []


def record(*what):
    CALLS.append(what)


def func(*args, **kwds):
    record("func-called", len(args), sorted(kwds))
    return "called"


class Meta(type):
    def __call__(cls, *args, **kwds):
        record("metaclass-call", cls.__name__)
        return super().__call__(*args, **kwds)


class Obj(metaclass=Meta):
    def __new__(cls, *args, **kwds):
        record("new", cls.__name__)
        return super().__new__(cls)

    def __init__(self, *args, **kwds):
        record("init")

    def __setstate__(self, state):
        record("setstate")

    def __setattr__(self, name, value):
        record("setattr", name)
        object.__setattr__(self, name, value)

    def __setitem__(self, key, value):
        record("setitem")

    def extend(self, items):
        record("extend")

    def method(self):
        record("method")


class Plain:
    """No hooks at all: an instance can only be noticed by walking the result."""


class ListSub(list):
    def __init__(self, *a):
        record("listsub-init")
        super().__init__(*a)

    def extend(self, items):
        record("listsub-extend")
        super().extend(items)


class DictSub(dict):
    """A registry-like mapping: the copy / pickle protocol re-creates it through __reduce_ex__ and __setitem__."""

    def __setitem__(self, k, v):
        record("dictsub-setitem")
        super().__setitem__(k, v)

    def __reduce_ex__(self, protocol):
        record("dictsub-reduce")
        return super().__reduce_ex__(protocol)


class SetSub(set):
    def __copy__(self):
        record("setsub-copy")
        return self

    def __deepcopy__(self, memo):
        record("setsub-deepcopy")
        return self


def _getter(self):
    record("property-get")
    return 1


class WithProperty:
    value = property(_getter)


class _ClassLevel:
    """A descriptor that runs code even when it is looked up on the class (as classmethod, cached singletons and ORM fields do)."""
    def __get__(self, obj, owner):
        record("class-level-descriptor-get")
        return owner()


class _Meta(type):
    @property
    def current(cls):
        record("metaclass-property-get")
        return cls()


class Settings(metaclass=_Meta):
    instance = _ClassLevel()

    def __init__(self):
        record("settings-init")

    class Nested:
        VALUE = 7


class GenLike(collections.abc.Generator):
    """Speaks the generator protocol without being a native generator object."""
    def send(self, value):
        record("genlike-send")
        raise StopIteration

    def throw(self, *exc):
        record("genlike-throw")
        raise StopIteration


class IterLike:
    def __iter__(self):
        record("iterlike-iter")
        return self

    def __next__(self):
        record("iterlike-next")
        raise StopIteration


class CallableObj:
    def __call__(self, *args, **kwds):
        record("callable-instance-called")
        return "called"


class ContextLike:
    def __enter__(self):
        record("context-enter")
        return self

    def __exit__(self, *exc):
        record("context-exit")
        return False


def _native_gen():
    record("native-gen-advanced")
    yield "first"
    record("native-gen-resumed")
    yield "second"


def reset():
    """Fresh stateful objects before every monitored load (a generator object can be advanced only once)."""
    global NATIVE_GEN
    NATIVE_GEN = _native_gen()


VALUE = 42
LIST = [1, 2]
DICT = {"k": [1]}
SET = {1, 2}
BYTEARRAY = bytearray(b"ab")
REGISTRY = list.__new__(ListSub)        # (built without running the recording hooks)
list.extend(REGISTRY, [1, 2])
TABLE = dict.__new__(DictSub)
dict.__setitem__(TABLE, "k", "v")
SETSUB = SetSub([1])
INSTANCE = Plain()
GENLIKE = GenLike()
ITERLIKE = IterLike()
CALLABLE = CallableObj()
CONTEXT = ContextLike()
NATIVE_GEN = _native_gen()
COROUTINE_FUNC = _native_gen
