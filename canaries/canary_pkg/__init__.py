"""Canary package that must never be imported by a load (not even as the parent of a dotted name)."""
import sys
sys.modules.setdefault("__canary_marks__", type(sys)("__canary_marks__")).pkg = True
