import sys
sys.modules.setdefault("__canary_marks__", type(sys)("__canary_marks__")).pkg_sub = True
attr = 1


def func(*a, **k):
    return "called"
