"""C03 - reading raises only YAML errors, terminates, and error marks lie inside the input."""
import io

from hypothesis import strategies as st

from vlib import gen_inputs as gi
from vlib import greybox
from vlib import ref_marks
from vlib.monitors import CallBudget, BudgetExceeded
from vlib.runner import Arm, Eval, Failure
from vlib.util import exc_key, exc_msg, have_c

PROPERTY = "C03"
LEVEL = "exploration"
RULE = ("Inputs: rendered valid documents; grammar-aware mutations of them (delete/duplicate/insert indicator/replace/truncate/"
        "swap/re-indent/tab); explicit productions for escapes (\\x \\u \\U incl. > 10FFFF, surrogates, short/non-hex), directives "
        "(%YAML with huge/missing numbers, %TAG with bad handles/prefixes/%XX escapes), block-scalar headers, tags/anchors, "
        "indicator soups; arbitrary str; byte inputs in UTF-8/UTF-16/UTF-32/latin-1 with and without BOM and byte-level damage; "
        "every truncation of small documents. Each input goes through scan, parse and compose_all on Loader and CLoader, as "
        "str/bytes and (one in four) as a stream. Oracle: outcome is a result or a YAMLError subclass; pure-Python work stays below "
        "a call budget of 20000+3000*len (no hang); every mark of a marked error has 0<=index<=len(decoded input) and, for the "
        "pure-Python back-end, (line,column) equal to the reference count of line breaks; ReaderError.position within the raw "
        "input. Non-trivial = non-empty input that is not accepted as one plain scalar; distinct = hash of input.")
ASSUMPTIONS = [
    "nesting depth of generated inputs stays far below the recursion limit (out of scope by the property statement)",
    "a hang inside libyaml can only be seen by the per-run watchdog (reported as harness error, never as violation)",
    "besides the call budget, one call may use at most 20 s of process CPU time (ITIMER_VIRTUAL, independent of machine load); inputs are "
    "below 64 KB and normally need milliseconds, so exceeding it is reported as a hang",
]


_path_loaders = {}


def loaders():
    import yaml
    out = [("py", yaml.Loader)]
    if have_c():
        out.append(("c", yaml.CLoader))
    # user classes that use the (experimental) path resolvers: their resolver stacks are walked on every node
    if not _path_loaders:
        for name, base in [("py", yaml.Loader)] + ([("c", yaml.CLoader)] if have_c() else []):
            cls = type("PathLoader", (base,), {})
            cls.add_path_resolver("!at-a", ["a"], dict)
            cls.add_path_resolver("!item", [None], str)
            cls.add_path_resolver("!deep", ["a", None, "b"])
            _path_loaders[name] = cls
    for name, cls in _path_loaders.items():
        out.append((name + "-path", cls))
    return out


LEVELS = ("scan", "parse", "compose_all")
CPU_LIMIT_S = 20


class Stuck(BaseException):
    pass


class cpu_limit:
    """Interrupts the enclosed call after `seconds` of *CPU time of this process* (ITIMER_VIRTUAL: machine load does not count).
    Work that needs four orders of magnitude more CPU than any other input of its size is what 'hangs' means for a
    library call; the call budget above cannot see time spent inside one C call (e.g. a backtracking regular expression)."""

    def __init__(self, seconds):
        self.seconds = seconds

    def _handler(self, signum, frame):
        raise Stuck()

    def __enter__(self):
        import signal
        self.old = signal.signal(signal.SIGVTALRM, self._handler)
        self.prev = signal.setitimer(signal.ITIMER_VIRTUAL, self.seconds)      # the runner's per-case limit may be pending
        return self

    def __exit__(self, *a):
        import signal
        signal.setitimer(signal.ITIMER_VIRTUAL, self.prev[0] if self.prev else 0)
        signal.signal(signal.SIGVTALRM, self.old)
        return False


def check_marks(exc, data, backend, lineidx_cache):
    """Returns a failure message or None."""
    import yaml
    if isinstance(exc, yaml.reader.ReaderError):
        pos = exc.position
        # the LibYAML reader is handed the UTF-8 encoding of a str input and reports byte offsets into it
        limit = len(data.encode("utf-8", "surrogatepass")) if (backend == "c" and isinstance(data, str)) else len(data)
        if not isinstance(pos, int) or pos < 0 or pos > limit:
            return "ReaderError.position %r outside raw input of length %d" % (pos, limit)
        if not any(k.endswith("mark") for k in getattr(exc, "__dict__", {})):
            return None
    if isinstance(exc, yaml.YAMLError):
        text = data if isinstance(data, str) else ref_marks.decode_like_reader(data)
        # every mark an error carries, under whatever attribute name and on whatever error class
        for name in sorted(set(("context_mark", "problem_mark")) | {k for k in getattr(exc, "__dict__", {}) if k.endswith("mark")}):
            m = getattr(exc, name, None)
            if m is None or not hasattr(m, "index"):
                continue
            if text is None:
                continue
            if not (0 <= m.index <= len(text)):
                return "%s.index %d outside decoded input of length %d" % (name, m.index, len(text))
            if backend == "py":
                if "li" not in lineidx_cache:
                    lineidx_cache["li"] = ref_marks.LineIndex(text)
                exp = lineidx_cache["li"].line_col(m.index)
                if (m.line, m.column) != exp:
                    return "%s at index %d reports line/column (%d,%d), counting breaks gives %r" % (
                        name, m.index, m.line, m.column, exp)
    return None


class FileLike:
    """A caller's stream as real programs pass them: only read() is promised; 'name' may be a path (str or bytes), a file
    descriptor number (os.fdopen, TemporaryFile, pipes, sockets), None (SpooledTemporaryFile) or missing; read() may return
    fewer items than asked for."""

    def __init__(self, data, name, piece):
        self._data, self._pos, self._piece = data, 0, piece
        if name != "missing":
            self.name = name

    def read(self, size=-1):
        if size is None or size < 0:
            size = len(self._data)
        if self._piece:
            size = min(size, self._piece)
        out = self._data[self._pos:self._pos + size]
        self._pos += len(out)
        return out


STREAM_KINDS = {2: (7, 0), 3: (None, 0), 4: (b"/tmp/x.yaml", 0), 5: ("missing", 5), 6: (3, 1), 7: ("<pipe>", 4096)}


def make_stream(data, kind):
    if kind is True or kind == 1:
        return io.StringIO(data) if isinstance(data, str) else io.BytesIO(data)
    name, piece = STREAM_KINDS[kind]
    return FileLike(data, name, piece)


def run_one(data, as_stream):
    import yaml
    failures = []
    outcomes = []
    evals = 0
    n = len(data)
    cache = {}
    for bname, L in loaders():
        for level in (LEVELS if "-path" not in bname else ("compose_all",)):
            evals += 1
            fn = getattr(yaml, level)
            src = data
            if as_stream:
                src = make_stream(data, as_stream)
            try:
                with cpu_limit(CPU_LIMIT_S):
                    if bname == "py":
                        with CallBudget(20000 + 3000 * n):
                            for _ in fn(src, Loader=L):
                                pass
                    else:
                        for _ in fn(src, Loader=L):
                            pass
                outcomes.append("ok")
            except Stuck:
                failures.append(Failure("hang:cpu-time:%s:%s" % (bname, level),
                                        "more than %d s of CPU time for %d input units (typical: milliseconds)" % (CPU_LIMIT_S, n)))
                outcomes.append("hang")
            except BudgetExceeded as e:
                failures.append(Failure("hang:%s:%s" % (bname, level), "more than %s calls for %d input units" % (e, n)))
                outcomes.append("hang")
            except RecursionError:
                outcomes.append("recursion")       # out of scope by the property statement
            except yaml.YAMLError as e:
                outcomes.append(type(e).__name__)
                msg = check_marks(e, data, bname.split("-")[0], cache)
                if msg:
                    failures.append(Failure("bad-mark:%s:%s:%s" % (bname, level, exc_key(e)), msg))
            except Exception as e:
                outcomes.append(type(e).__name__)
                failures.append(Failure("non-yaml-error:%s:%s:%s" % (bname, level, exc_key(e)), exc_msg(e)))
    return failures, outcomes, evals


def classify(data, outcomes):
    cl = []
    o = outcomes[2] if len(outcomes) > 2 else "ok"
    oc = outcomes[5] if len(outcomes) > 5 else None
    cl.append("py:" + o)
    if oc is not None:
        cl.append("c:" + oc)
    if isinstance(data, bytes):
        cl.append("bytes")
        if data[:2] in (b"\xff\xfe", b"\xfe\xff"):
            cl.append("utf-16")
    if outcomes[0] != "ok":
        cl.append("fails-at:scan")
    elif outcomes[1] != "ok":
        cl.append("fails-at:parse")
    elif o != "ok":
        cl.append("fails-at:compose")
    return cl


def make_eval(label):
    def ev(case):
        data, as_stream = case
        failures, outcomes, evals = run_one(data, as_stream)
        cl = [label] + classify(data, outcomes)
        if as_stream:
            cl.append("stream:%s" % ("io" if as_stream is True or as_stream == 1 else "file-like:name=%s%s" % (
                type(STREAM_KINDS[as_stream][0]).__name__ if STREAM_KINDS[as_stream][0] != "missing" else "missing",
                ":short-reads" if STREAM_KINDS[as_stream][1] else "")))
        if isinstance(data, str):
            if "\\U" in data or "\\u" in data or "\\x" in data:
                cl.append("has-escape")
            if "%YAML" in data or "%TAG" in data:
                cl.append("has-directive")
        nontrivial = len(data) > 0 and not (outcomes[2] == "ok" and len(data) < 3)
        return Eval(failures, cl, nontrivial=nontrivial, ident=data, evals=evals,
                    sample={"input": data if isinstance(data, str) else repr(data), "stream": as_stream, "outcomes": outcomes})
    return ev


def with_stream(s):
    return st.tuples(s, st.sampled_from([False, False, False, False, False, False, True, True, 2, 3, 4, 5, 6, 7]))


def enum_truncations(shard, nshards, tier):
    """Every truncation of a fixed set of small documents rendered from the doc generator (deterministic sample)."""
    from hypothesis import given, settings, seed, HealthCheck, Phase
    docs = []

    @seed(4242)
    @settings(max_examples=60 if tier == "quick" else 600, database=None, deadline=None, suppress_health_check=list(HealthCheck),
              phases=[Phase.generate])
    @given(gi.rendered_texts(2, 6))
    def collect(t):
        if 0 < len(t) <= 160:
            docs.append(t)
    collect()
    docs = sorted(set(docs))
    i = 0
    for d in docs:
        for t in gi.all_truncations(d):
            if i % nshards == shard:
                yield (t, False)
            i += 1


def arms(tier):
    return [
        Arm("valid", make_eval("valid"), lambda: with_stream(gi.rendered_texts()), quick=3000, thorough=150000),
        Arm("mutated", make_eval("mutated"), lambda: with_stream(gi.mutated_texts()), quick=9000, thorough=600000),
        Arm("productions", make_eval("production"), lambda: with_stream(gi.productions()), quick=12000, thorough=700000),
        Arm("text", make_eval("text"), lambda: with_stream(st.one_of(st.text(max_size=60), st.text(alphabet="-?:,[]{}#&*!|>'\"%@` \n\tab\\", max_size=30))),
            quick=5000, thorough=300000),
        Arm("bytes", make_eval("bytes"), lambda: with_stream(gi.byte_inputs()), quick=9000, thorough=500000),
        Arm("truncations", make_eval("truncation"), enum=enum_truncations),
        # coverage-guided search (vlib/greybox.py): candidates are kept when the evaluation below reached new library lines or
        # new scanner/parser states; the oracle is the same as for every other arm
        Arm("greybox", make_eval("greybox"), enum=lambda s, ns, tier: greybox.campaign(
            s, ns, tier, PROPERTY, "greybox", quick=16000, thorough=1200000, wrap=lambda t: (t, False))),
    ]


import re as _re


def known_class(arm, case, key):
    data, _ = case
    if key.startswith(("non-yaml-error:c:", "non-yaml-error:c-path:")) and "UnicodeDecodeError" in key:
        if isinstance(data, str):
            text = data
        else:
            text = ref_marks.decode_like_reader(data) or data.decode("latin-1")
            text += data.replace(b"\x00", b"").decode("latin-1")       # UTF-16 / UTF-32 input without relying on a BOM
        if _re.search(r"%[0-9A-Fa-f]{2}", text):
            return "libyaml-bridge-unicodedecodeerror-on-invalid-utf8-uri-escape"
    return None


def pinned_known(key, rec):
    import yaml
    if key == "libyaml-bridge-unicodedecodeerror-on-invalid-utf8-uri-escape":
        if not have_c():
            return False
        try:
            list(yaml.scan("%TAG !e! tag:%ED%A0%80\n--- a\n", Loader=yaml.CLoader))
        except yaml.YAMLError:
            return False
        except UnicodeDecodeError:
            return True
        return False
    return True
