"""C07 - the result does not depend on how the input is delivered."""
import codecs
import io

from hypothesis import strategies as st

from vlib import gen_inputs as gi
from vlib import greybox
from vlib.runner import Arm, Eval, Failure
from vlib.util import exc_key, exc_msg, have_c

PROPERTY = "C07"
LEVEL = "exploration"
RULE = ("Hypothesis-generated texts (valid renderings incl. non-ASCII/astral characters and all break flavours; reader-clean "
        "documents with scanner/parser/composer errors from grammar-aware mutations and productions; valid documents with exactly "
        "one reader-level defect injected at a known offset: a non-printable character, or an invalid byte sequence), optionally "
        "padded with a comment so that the document straddles 1-3 refill boundaries (4096 / 16384), delivered as str, UTF-8 "
        "bytes, UTF-8+BOM, UTF-16-LE/BE+BOM, StringIO, BytesIO and short-read text/byte streams whose read-size schedule is drawn "
        "from {1,2,3,5,7,64,4095,4096,4097}, all-size-1, and for documents <= 64 units every single split position; x scan, parse, "
        "compose_all, load_all x both back-ends. Oracle (metamorphic, against the str form of the same back-end): identical "
        "token/event/node/object sequences incl. every mark's line and column (index up to the constant BOM shift), identical "
        "final error (class, context, problem, line, column); with a reader defect, what each form delivers before the error is a "
        "prefix of the longest delivery and the ReaderError carries the injected character and the right position (character "
        "offset for unprintable characters, byte offset for invalid bytes, identical across chunkings). Non-trivial = a form "
        "other than str whose split falls inside a multi-unit sequence / CR LF pair / at a refill boundary, or an input with "
        "an error; distinct = hash of (text, defect, schedule).")
ASSUMPTIONS = [
    "index is compared up to the constant shift of the BOM character (the BOM is a character of the decoded stream; the property promises line/column)",
    "one defect kind per input: with two defects, which is met first legitimately depends on laziness (C18 requires laziness)",
    "LibYAML forms are compared with the LibYAML str form; LibYAML reader-error positions are only required to be identical across chunkings of the same bytes",
]

SIZES = [1, 2, 3, 5, 7, 64, 4095, 4096, 4097]


class ChunkedText:
    """Text stream whose read(n) returns at most the next scheduled size."""

    def __init__(self, text, schedule):
        self.data = text
        self.pos = 0
        self.schedule = list(schedule)
        self.i = 0
        self.name = "<chunked>"

    def read(self, size=-1):
        if size is None or size < 0:
            size = len(self.data)
        if self.schedule:
            k = self.schedule[min(self.i, len(self.schedule) - 1)]
            self.i += 1
            size = min(size, max(1, k))
        out = self.data[self.pos:self.pos + size]
        self.pos += len(out)
        return out


class ChunkedBytes(ChunkedText):
    pass


BOMS = {"utf-8": b"", "utf-8-bom": codecs.BOM_UTF8, "utf-16-le": codecs.BOM_UTF16_LE, "utf-16-be": codecs.BOM_UTF16_BE}


def encode(text, enc):
    if enc == "utf-8":
        return text.encode("utf-8")
    if enc == "utf-8-bom":
        return codecs.BOM_UTF8 + text.encode("utf-8")
    return BOMS[enc] + text.encode(enc)


def mark_t(m):
    return None if m is None else (m.line, m.column)


def summarize_item(level, x):
    """Comparable summary of a token/event/node/object + list of its mark indexes."""
    if level in ("scan", "parse"):
        attrs = []
        for a in ("value", "anchor", "tag", "implicit", "style", "plain", "explicit", "version", "tags", "flow_style", "name", "encoding"):
            if hasattr(x, a):
                if a == "encoding":
                    continue
                attrs.append((a, getattr(x, a)))
        return (type(x).__name__, tuple(attrs), mark_t(x.start_mark), mark_t(x.end_mark)), [x.start_mark.index, x.end_mark.index]
    if level == "compose":
        idx = []
        seen = {}

        def go(n):
            if n is None:
                return None
            if id(n) in seen:
                return ("ref", seen[id(n)])
            seen[id(n)] = len(seen)
            idx.extend([n.start_mark.index, n.end_mark.index])
            if n.id == "scalar":
                return ("S", n.tag, n.value, n.style, mark_t(n.start_mark), mark_t(n.end_mark))
            if n.id == "sequence":
                return ("Q", n.tag, mark_t(n.start_mark), mark_t(n.end_mark), tuple(go(c) for c in n.value))
            return ("M", n.tag, mark_t(n.start_mark), mark_t(n.end_mark), tuple((go(k), go(v)) for k, v in n.value))
        return go(x), idx
    return canon(x), []


def canon(obj):
    seen = {}

    def go(x):
        if isinstance(x, (list, dict, set)):
            if id(x) in seen:
                return ("ref", seen[id(x)])
            seen[id(x)] = len(seen)
            if isinstance(x, list):
                return ("list", tuple(go(i) for i in x))
            if isinstance(x, dict):
                return ("dict", tuple((go(k), go(v)) for k, v in x.items()))
            return ("set", tuple(sorted(repr(go(i)) for i in x)))
        if isinstance(x, tuple):
            return ("tuple", tuple(go(i) for i in x))
        if isinstance(x, float):
            return ("float", repr(x))
        return (type(x).__name__, x)
    return go(obj)


def run_form(level, Loader, data):
    """-> (items, index lists, error summary or None, raw exception)"""
    import yaml
    fn = {"scan": yaml.scan, "parse": yaml.parse, "compose": yaml.compose_all, "load": yaml.load_all}[level]
    items, idxs = [], []
    err = None
    exc = None
    try:
        for x in fn(data, Loader=Loader):
            s, ix = summarize_item(level, x)
            items.append(s)
            idxs.append(ix)
    except RecursionError:
        raise
    except Exception as e:
        exc = e
        if isinstance(e, yaml.reader.ReaderError):
            err = ("ReaderError", e.character, e.position, e.reason)
        elif isinstance(e, yaml.error.MarkedYAMLError):
            err = (type(e).__name__, e.context, mark_t(e.context_mark), e.problem, mark_t(e.problem_mark))
        else:
            err = (type(e).__name__, str(e)[:200])
    return items, idxs, err, exc


def make_forms(text, raw_override, schedules, backend):
    """List of (form name, factory, has_bom_char, bytes_key).  raw_override: {enc: bytes} when an invalid byte was injected."""
    forms = []
    if raw_override is None:
        forms.append(("StringIO", lambda: io.StringIO(text), False, None))
        for si, sch in enumerate(schedules):
            forms.append(("text-chunks#%d" % si, lambda sch=sch: ChunkedText(text, sch), False, None))
    for enc in ("utf-8", "utf-8-bom", "utf-16-le", "utf-16-be"):
        if raw_override is not None:
            if enc not in raw_override:
                continue
            data = raw_override[enc]
        else:
            data = encode(text, enc)
        bom = enc != "utf-8"
        forms.append(("bytes:%s" % enc, lambda data=data: data, bom, enc))
        forms.append(("BytesIO:%s" % enc, lambda data=data: io.BytesIO(data), bom, enc))
        for si, sch in enumerate(schedules):
            forms.append(("byte-chunks:%s#%d" % (enc, si), lambda data=data, sch=sch: ChunkedBytes(data, sch), bom, enc))
    return forms


def split_classes(text, schedules, enc_units=None):
    """Which interesting places the schedules split (measured on the UTF-8 and UTF-16 encodings and on the text)."""
    cl = set()
    for sch in schedules:
        pos = 0
        cuts = set()
        for k in sch[:-1] if len(sch) > 1 else sch:
            pos += k
            cuts.add(pos)
        if len(sch) == 1 and sch[0] < 4096:
            cuts = set(range(sch[0], len(text) * 4 + 1, sch[0]))
        u8 = text.encode("utf-8", "surrogatepass")
        for c in cuts:
            if 0 < c < len(u8) and (u8[c] & 0xC0) == 0x80:
                cl.add("split:inside-utf8-sequence")
            if 0 < c < len(text) and text[c - 1] == "\r" and text[c] == "\n":
                cl.add("split:between-CR-LF")
            if c in (1, 2, 3):
                cl.add("split:inside-BOM-or-first-bytes")
        u16 = text.encode("utf-16-le", "surrogatepass")
        for c in cuts:
            c2 = c - 2      # after the BOM
            if 0 < c2 < len(u16):
                if c2 % 2 == 1:
                    cl.add("split:inside-utf16-unit")
                elif c2 >= 2 and 0xD8 <= u16[c2 - 1] <= 0xDB:
                    cl.add("split:inside-surrogate-pair")
    if len(text) > 4096:
        cl.add("crosses-refill-boundary")
    return cl


def eval_case(case):
    import yaml
    text, pad, defect, schedules = case
    cl = set()
    if text[:1] == "\ufeff":
        text = text[1:]         # the str form carries no BOM; the byte forms add their own
    if pad:
        text = "# " + "p" * (pad - 3) + "\n" + text
    raw_override = None
    expect_reader = None
    base_text = text
    if defect is not None and defect[0] == "unprintable":
        _, off, ch = defect
        p = off % (len(text) + 1)
        text = text[:p] + ch + text[p:]
        expect_reader = ("char", p, ord(ch))
        cl.add("defect:unprintable-character")
    elif defect is not None and defect[0] == "badbyte":
        _, off, bad = defect
        raw_override = {}
        for enc in ("utf-8", "utf-16-le", "utf-16-be"):
            good = encode(text, enc)
            q = len(BOMS[enc]) + off % (len(good) - len(BOMS[enc]) + 1)
            if enc != "utf-8":
                q -= (q - len(BOMS[enc])) % 2
                # a lone low surrogate is invalid in UTF-16
                badb = b"\x00\xdc" if enc == "utf-16-le" else b"\xdc\x00"
            else:
                # do not split an existing multi-byte sequence: move q to a character boundary
                while q < len(good) and (good[q] & 0xC0) == 0x80:
                    q += 1
                badb = bad
            raw_override[enc] = good[:q] + badb + good[q:]
            expect_reader = ("byte", None, None)
        cl.add("defect:invalid-byte-sequence")
    if schedules:
        cl |= split_classes(text, schedules)
    failures = []
    evals = 0
    backends = [("py", {"scan": yaml.Loader, "parse": yaml.Loader, "compose": yaml.Loader, "load": yaml.SafeLoader})]
    if have_c():
        backends.append(("c", {"scan": yaml.CLoader, "parse": yaml.CLoader, "compose": yaml.CLoader, "load": yaml.CSafeLoader}))
    for bname, loaders in backends:
        forms = make_forms(text, raw_override, schedules, bname)
        for level in ("scan", "parse", "compose", "load"):
            L = loaders[level]
            if defect is not None and run_form(level, L, base_text)[2] is not None:
                continue    # the base document itself fails at this level: that error may legitimately come first
            if raw_override is None:
                ref_items, ref_idx, ref_err, ref_exc = run_form(level, L, text)
                evals += 1
                if ref_err is not None:
                    cl.add("error:%s" % ref_err[0])
                else:
                    cl.add("valid")
                if ref_exc is not None and not isinstance(ref_exc, yaml.YAMLError):
                    continue        # C03's subject
            else:
                ref_items = ref_idx = ref_err = None
            results = []
            for fname, factory, bom, enc in forms:
                evals += 1
                items, idxs, err, exc = run_form(level, L, factory())
                results.append((fname, items, idxs, err, bom, enc))
                if exc is not None and not isinstance(exc, yaml.YAMLError):
                    continue
                if raw_override is None and defect is None and ref_err is not None and ref_err[0] == "ReaderError":
                    # a text that happens to contain an unprintable character: eager forms deliver nothing, lazy ones a prefix
                    cl.add("error:ReaderError")
                    shift = 1 if (bom and bname == "py") else 0
                    if err is None or err[0] != "ReaderError" or err[1] != ref_err[1] or (bname == "py" and err[2] != ref_err[2] + shift):
                        failures.append(Failure("reader-error-differs:%s:%s:%s" % (bname, level, fname.split("#")[0]),
                                                "str form %r\n%s form %r (BOM shift %d)\ntext=%r" % (ref_err, fname, err, shift, text[-200:])))
                    continue
                if raw_override is None and defect is None:
                    # reader-clean input: everything identical to the str form
                    if items != ref_items:
                        k = 0
                        while k < min(len(items), len(ref_items)) and items[k] == ref_items[k]:
                            k += 1
                        failures.append(Failure("differs:%s:%s:%s" % (bname, level, fname.split("#")[0]),
                                                "item %d: str form %.200r\n%s form %.200r\ntext=%r" % (
                                                    k, ref_items[k:k + 1], fname, items[k:k + 1], text[-200:])))
                        continue
                    if err != ref_err:
                        failures.append(Failure("error-differs:%s:%s:%s" % (bname, level, fname.split("#")[0]),
                                                "str form %r\n%s form %r\ntext=%r" % (ref_err, fname, err, text[-200:])))
                        continue
                    # index: constant shift
                    shifts = {a - b for ia, ib in zip(idxs, ref_idx) for a, b in zip(ia, ib) if b > 0}
                    allowed = {1} if (bom and bname == "py") else {0}
                    if bname == "c":
                        allowed = {0, 1} if bom else {0}
                    if shifts and not (shifts <= allowed and len(shifts) <= 1):
                        failures.append(Failure("index-shift:%s:%s:%s" % (bname, level, fname.split("#")[0]),
                                                "index differences %r (allowed %r)\ntext=%r" % (sorted(shifts)[:5], allowed, text[-200:])))
            if defect is not None:
                # all forms: same error; deliveries are prefixes of the longest one
                allres = results + ([("str", ref_items, ref_idx, ref_err, False, None)] if raw_override is None else [])
                longest = max((r[1] for r in allres), key=len)
                for fname, items, idxs, err, bom, enc in allres:
                    if items != longest[:len(items)]:
                        failures.append(Failure("defect-prefix:%s:%s:%s" % (bname, level, fname.split("#")[0]),
                                                "delivery of %s is not a prefix of the longest delivery\ntext=%r" % (fname, text[-200:])))
                        break
                for fname, items, idxs, err, bom, enc in allres:
                    if err is None or err[0] != "ReaderError":
                        # another error may legitimately come first only if the document is otherwise invalid; the base text is valid
                        failures.append(Failure("defect-not-reported-as-reader-error:%s:%s:%s" % (bname, level, fname.split("#")[0]),
                                                "%s gave %r\ntext=%r" % (fname, err, text[-200:])))
                        break
                else:
                    if expect_reader[0] == "char":
                        _, p, code = expect_reader
                        for fname, items, idxs, err, bom, enc in allres:
                            if bname == "py":
                                want = p + (1 if bom else 0)
                                if err[1] != code or err[2] != want:
                                    failures.append(Failure("reader-error-position:%s:%s:%s" % (bname, level, fname.split("#")[0]),
                                                            "%s: character %r position %r, expected %r at %r" % (fname, err[1], err[2], code, want)))
                                    break
                    # identical across chunkings of the same bytes / text
                    groups = {}
                    for fname, items, idxs, err, bom, enc in allres:
                        key = enc if enc else "text"
                        if fname.startswith("bytes:"):
                            key = enc
                        groups.setdefault(key, set()).add((err[1], err[2]) if bname == "c" or expect_reader[0] == "byte" else (err[1], err[2]))
                    for key, vals in groups.items():
                        if len(vals) > 1:
                            failures.append(Failure("reader-error-depends-on-chunking:%s:%s" % (bname, level),
                                                    "%s: (character, position) values %r\ntext=%r" % (key, sorted(map(str, vals))[:4], text[-120:])))
                            break
    nt = bool(cl & {"split:inside-utf8-sequence", "split:inside-utf16-unit", "split:inside-surrogate-pair", "split:between-CR-LF",
                    "split:inside-BOM-or-first-bytes", "crosses-refill-boundary"}) or any(c.startswith(("error:", "defect:")) for c in cl)
    return Eval(failures, sorted(cl), nontrivial=nt, ident=repr(case), evals=evals,
                sample={"text": text[-160:], "pad": pad, "defect": repr(defect), "schedules": repr(schedules)[:160]})


# ------------------------------------------------------------------------------------------------

def schedules():
    drawn = st.lists(st.sampled_from(SIZES), min_size=1, max_size=12)
    return st.lists(st.one_of(drawn, st.just([1]), st.just([2]), st.just([3]), st.sampled_from([[1, 4096], [2, 4096], [3, 4096], [4095, 1, 1, 4096], [4096, 1, 4096], [4097, 4096]])),
                    min_size=1, max_size=3)


def base_texts():
    extra = st.sampled_from(["a: caf\xe9 \U0001F600\r\nb: 日本\r\n", "- \U00010000\U0010ffff\n- x\r\n", "k: 'a\r\n\r\n  b'\r\n", "\xe9: \xe9\n", "[\U0001F600, \xe9]\n",
                             "--- |\r\n  \U0001F600\r\n...\r\n", "a: b\r", "\U0001F600",
                             # characters a position counter treats specially, INSIDE scalars and comments, followed by more tokens
                             "k: a\ufeffb # c\ufeffd\nj: [x\ufeffy, 'q\ufeffr', \"s\ufefft\"]\n", "- |\n  l\ufeffm\n- n\ufeffo: p\n",
                             "a\u200bb: c\u200dd # e\n[f\u2060g, h]: i\n", "k: e\u0301 \uff21 x\n- \u202ey: z\n",
                             # ... and at the START of a later line / document / token (where only offset 0 is special)
                             "a: b\n\ufefftail: c\nd: e\n", "- x\n- y\n\ufeff- z\n", "--- a\n\ufeff--- b\n...\n\ufeffc\n", "k:\n  \ufeffv\n\ufeff# c\nj: 1\n",
                             "a: b\r\n\ufeffc: d\r\n", "[a,\n\ufeffb]\n", "a: 1\n\u200bb: 2\n\u2060c: 3\n"])
    return st.one_of(gi.rendered_texts(2, 8), gi.rendered_texts(2, 8), extra)


def valid_cases():
    pad = st.sampled_from([0, 0, 4090, 4094, 4095, 4096, 8190, 16380, 16383])
    return st.tuples(base_texts(), pad, st.none(), schedules())


def _printable(ch):
    o = ord(ch)
    return ch in "\t\n\r\x85" or 0x20 <= o <= 0x7e or 0xa0 <= o <= 0xd7ff or 0xe000 <= o <= 0xfffd or 0x10000 <= o <= 0x10ffff


def sanitize(text):
    """Reader-clean by construction: unprintable characters become '?', a BOM after offset 0 becomes 'B'."""
    out = "".join(ch if _printable(ch) else "?" for ch in text)
    return out[:1] + out[1:].replace("\ufeff", "B")


def error_cases():
    texts = st.one_of(gi.mutated_texts(), gi.productions()).map(sanitize)
    pad = st.sampled_from([0, 0, 0, 4094])
    return st.tuples(texts, pad, st.none(), schedules())


def defect_cases():
    unprintable = st.tuples(st.just("unprintable"), st.integers(0, 20000),
                            st.sampled_from(["\x00", "\x01", "\x07", "\x0b", "\x1f", "\x7f", "\x80", "\x84", "\x9f", "\ufffe", "\uffff"]))
    badbyte = st.tuples(st.just("badbyte"), st.integers(0, 40000), st.sampled_from([b"\xff", b"\xc0", b"\x80", b"\xc3", b"\xe2\x82", b"\xf8", b"\xed\xa0\x80"]))
    pad = st.sampled_from([0, 0, 4094, 4096, 8200])
    return st.tuples(base_texts(), pad, st.one_of(unprintable, badbyte), schedules())


def enum_splits(shard, nshards, tier):
    """Every single split position of a few small documents (exhaustive per document)."""
    docs = ["a: \xe9\r\nb: \U0001F600\r\n", "- [x, 日]\n- 'q\r\n  r'\n", "k: |\r\n  \U00010000\r\n", "\xe9", "? a\n: \U0001F600 # c\n--- !!str &a x\n... \n"]
    n = 0
    for t in docs:
        total = len(t.encode("utf-16-le")) + 2
        for p in range(1, total + 1):
            if n % nshards == shard:
                yield (t, 0, None, [[p, 4096]])
            n += 1


def greybox_campaign(shard, nshards, tier):
    """Coverage-guided texts (vlib/greybox.py), valid or not, made reader-clean like the texts of the 'errors' arm (one defect per input:
    an unacceptable character next to a syntax error is reported in a form-dependent order by design), in every delivery form with
    one read-size schedule chosen by a hash."""
    from vlib.runner import h64
    scheds = [[[1]], [[2]], [[3]], [[1, 4096]], [[7]], [[5, 1]]]
    return greybox.campaign(shard, nshards, tier, PROPERTY, "greybox", quick=4000, thorough=300000,
                            wrap=lambda t: (sanitize(t.lstrip("\ufeff")), 0, None, scheds[h64(t) % len(scheds)]), max_len=160)


def arms(tier):
    return [
        Arm("valid", eval_case, valid_cases, quick=700, thorough=40000),
        Arm("errors", eval_case, error_cases, quick=700, thorough=40000),
        Arm("reader-defects", eval_case, defect_cases, quick=600, thorough=30000),
        Arm("all-splits", eval_case, enum=enum_splits, exhaustive=True),
        Arm("greybox", eval_case, enum=greybox_campaign),
    ]


REQUIRED_CLASSES = ["split:inside-utf8-sequence", "split:inside-utf16-unit", "split:inside-surrogate-pair", "split:between-CR-LF",
                    "crosses-refill-boundary", "defect:unprintable-character", "defect:invalid-byte-sequence", "valid", "error:ScannerError",
                    "error:ParserError"]
