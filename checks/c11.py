"""C11 - every call and every document stands alone."""
import os
import pickle
import re
import select
import sys

from hypothesis import strategies as st

from vlib import gen_docs as gd
from vlib.runner import Arm, Eval, Failure, VERIF
from vlib.util import exc_key, exc_msg, have_c

PROPERTY = "C11"
LEVEL = "exploration"
RULE = ("(a) Hypothesis-generated call histories: lists of up to 30 (call, item, abandon-after-k) steps over a catalogue of ~190 public "
        "calls (scan, parse, compose(_all), load(_all) from str/bytes/stream, safe_load, full_load_all, dump with 8 option sets, "
        "dump_all, dump to a stream, emit, serialize_all, for every loader/dumper family and both back-ends) applied to a pool of "
        "valid inputs, inputs failing at each stage (reader, scanner, parser, composer, constructor), unrepresentable values "
        "(dump fails half-way), ill-formed event lists, recursive structures; generators may be abandoned after k items. Each "
        "history runs in a child forked from a pristine process (yaml imported, never called); oracle: the outcome of every step "
        "equals the outcome of the same call in its own pristine child, and an address-free digest of every module- and "
        "class-level container of the yaml package is unchanged after every step. (b) Streams of 2-5 generated documents: "
        "parse / compose_all / load_all of the stream equal, item-wise, what each document gives alone (anchor names "
        "normalised); a %TAG handle or an anchor defined only in document i and used in document i+1 is rejected; %YAML of "
        "document i is not reported for document i+1. Non-trivial = a history with a failing step followed by a succeeding "
        "one, or a stream with directives/anchors in a non-last document; distinct = hash of case.")
ASSUMPTIONS = [
    "a child forked from a process that has imported yaml (and canary_objs) but never called it stands for a fresh interpreter",
    "exception messages are compared after replacing object addresses (0x...) - they are not a function of the call",
    "sys.modules growth (codec modules, modules a document legitimately makes the unsafe loader import) is not library-global state",
]

_state = {}


def _init():
    if "cat" in _state:
        return _state
    d = os.path.join(VERIF, "canaries")
    if d not in sys.path:
        sys.path.append(d)
    import canary_objs  # noqa: F401
    import yaml
    from vlib import c11_pool as pool
    _state["yaml"] = yaml
    _state["pool"] = pool
    _state["cat"] = pool.calls(yaml)
    _state["counts"] = pool.counts()
    _state["refs"] = {}
    return _state


_addr = re.compile(r"0x[0-9a-fA-F]+")


def norm(outcome):
    if outcome[0] == "exc":
        return ("exc", outcome[1], _addr.sub("0x?", outcome[2]))
    if outcome[0] == "ok" and isinstance(outcome[1], str):
        return ("ok", _addr.sub("0x?", outcome[1]))
    return outcome


def in_child(fn, timeout=120):
    """Run fn() in a forked child; return its pickled result."""
    r, w = os.pipe()
    pid = os.fork()
    if pid == 0:
        code = 0
        try:
            os.close(r)
            try:
                res = ("ok", fn())
            except BaseException as e:     # reported to the parent
                import traceback
                res = ("harness-exc", "%s: %s\n%s" % (type(e).__name__, e, traceback.format_exc()[-1500:]))
            data = pickle.dumps(res, 4)
            with os.fdopen(w, "wb") as fh:
                fh.write(data)
        except BaseException:
            code = 3
        finally:
            os._exit(code)
    os.close(w)
    chunks = []
    with os.fdopen(r, "rb") as fh:
        while True:
            ready, _, _ = select.select([fh], [], [], timeout)
            if not ready:
                os.kill(pid, 9)
                os.waitpid(pid, 0)
                return ("timeout", None)
            b = fh.read(65536)
            if not b:
                break
            chunks.append(b)
    os.waitpid(pid, 0)
    if not chunks:
        return ("died", None)
    return pickle.loads(b"".join(chunks))


def step_item(s, step):
    ci, ii, k = step
    ci %= len(s["cat"])
    kind = s["cat"][ci][1]
    ii %= s["counts"][kind]
    return ci, ii, (None if k >= 4 else k)


def reference(s, ci, ii, k):
    key = (ci, ii, k)
    if key not in s["refs"]:
        res = in_child(lambda: norm(s["pool"].run_call(s["yaml"], s["cat"], ci, ii, k)))
        if res[0] != "ok":
            raise AssertionError("reference child failed: %r" % (res,))
        s["refs"][key] = res[1]
    return s["refs"][key]


def run_history(s, steps):
    yaml, pool = s["yaml"], s["pool"]
    out = []
    fp0 = pool.fingerprint(yaml)
    for n, (ci, ii, k) in enumerate(steps):
        got = norm(pool.run_call(yaml, s["cat"], ci, ii, k))
        fp = pool.fingerprint(yaml)
        out.append((got, fp == fp0))
        if fp != fp0:
            break
    return out


def eval_history(case):
    s = _init()
    steps = [step_item(s, st_) for st_ in case]
    refs = [reference(s, *st_) for st_ in steps]
    res = in_child(lambda: run_history(s, steps))
    if res[0] != "ok":
        raise AssertionError("history child failed: %r" % (res,))
    failures = []
    cl = set()
    seen_fail = False
    for n, ((got, fp_ok), ref, (ci, ii, k)) in enumerate(zip(res[1], refs, steps)):
        name = s["cat"][ci][0]
        cl.add("call:%s" % name.split(":")[0])
        if ref[0] == "exc":
            seen_fail = True
            cl.add("step-fails:%s" % ref[1])
        elif seen_fail:
            cl.add("success-after-failure")
        if k is not None and name.split(":")[0] in ("scan", "parse", "compose_all", "load_all", "full_load_all"):
            cl.add("generator-abandoned")
        if not fp_ok:
            failures.append(Failure("global-state-changed:%s" % name.split(":")[0],
                                    "after step %d (%s on item %d): the digest of the package's module/class-level containers changed\nhistory=%r" % (
                                        n, name, ii, [(s["cat"][c][0], i, kk) for c, i, kk in steps[:n + 1]])))
            break
        if got != ref:
            failures.append(Failure("outcome-depends-on-history:%s" % name.split(":")[0],
                                    "step %d (%s on item %d, k=%r)\nalone:      %.300r\nin history: %.300r\nhistory=%r" % (
                                        n, name, ii, k, ref, got, [(s["cat"][c][0], i, kk) for c, i, kk in steps[:n + 1]])))
            break
    return Eval(failures, sorted(cl), nontrivial="success-after-failure" in cl, ident=repr(steps), evals=len(steps) + len(refs),
                sample={"history": [(s["cat"][c][0], i, kk) for c, i, kk in steps[:10]]})


def histories():
    step = st.tuples(st.integers(0, 400), st.integers(0, 40), st.integers(0, 8))
    return st.lists(step, min_size=2, max_size=30)


def focused_histories():
    """Pairs/triples on the SAME item under different calls or options: where a cache keyed too coarsely would show."""
    def mk(t):
        item, calls_, k = t
        return [(c, item, k) for c in calls_]
    return st.tuples(st.integers(0, 40), st.lists(st.integers(0, 400), min_size=2, max_size=8), st.integers(0, 8)).map(mk)


# ------------------------------------------------------------------------------------------------
# (b) streams

def _norm_anchor_events(events):
    names = {}
    out = []
    for e in events:
        name = type(e).__name__
        if name in ("StreamStartEvent", "StreamEndEvent"):
            continue
        a = getattr(e, "anchor", None)
        if a is not None:
            a = names.setdefault(a, "n%d" % len(names))
        out.append((name, a, getattr(e, "tag", None), getattr(e, "value", None), getattr(e, "implicit", None),
                    getattr(e, "version", None), getattr(e, "tags", None)))
    return out


def eval_stream(case):
    import yaml
    from vlib.c11_pool import summarize
    stream = case
    docs = stream["docs"]
    full = gd.render(stream).text
    singles = []
    for d in docs:
        one = dict(stream, docs=[d], bom=False, lead_comment=False)
        singles.append(gd.render(one).text)
    cl = set()
    if any(d.get("handles") for d in docs[:-1]):
        cl.add("directive:TAG-in-non-last-document")
    if any(d.get("version") for d in docs[:-1]):
        cl.add("directive:YAML-in-non-last-document")
    if "&" in "".join(singles[:-1]):
        cl.add("anchor-in-non-last-document")
    cl.add("docs=%d" % len(docs))
    failures = []
    evals = 0
    legs = [("py", yaml.Loader, yaml.SafeLoader)] + ([("c", yaml.CLoader, yaml.CSafeLoader)] if have_c() else [])
    # user classes with path resolvers: their resolver stacks are per-document state as well
    if "path" not in _state:
        _state["path"] = []
        for bname, base in [("py-path", yaml.Loader)] + ([("c-path", yaml.CLoader)] if have_c() else []):
            PL = type("PathLoader", (base,), {})
            PL.add_path_resolver("!any-item", [None], str)
            PL.add_path_resolver("!second-level", [None, None], str)
            PL.add_path_resolver("!root-map", [], dict)
            PL.add_path_resolver("!seq-under-root", [None], list)
            _state["path"].append((bname, PL, None))
    for bname, L, SL in legs + _state["path"]:
        for level in (("parse", "compose", "load") if SL is not None else ("compose",)):
            evals += 1 + len(singles)

            def run(text):
                try:
                    if level == "parse":
                        evs = list(yaml.parse(text, Loader=L))
                        # split per document
                        per, cur = [], None
                        for e in evs:
                            if type(e).__name__ == "DocumentStartEvent":
                                cur = []
                                per.append(cur)
                            if cur is not None:
                                cur.append(e)
                        return ("ok", [_norm_anchor_events(p) for p in per])
                    if level == "compose":
                        return ("ok", [summarize(n) for n in yaml.compose_all(text, Loader=L)])
                    return ("ok", [summarize(o) for o in yaml.load_all(text, Loader=SL)])
                except yaml.YAMLError as e:
                    return ("exc", type(e).__name__)
                except RecursionError:
                    raise
                except Exception as e:
                    return ("exc", "non-yaml-error:%s" % exc_key(e))
            whole = run(full)
            parts = [run(t) for t in singles]
            bad = [r for r in [whole] + parts if r[0] == "exc" and r[1].startswith("non-yaml-error")]
            if bad:
                failures.append(Failure("stream:%s:%s:%s" % (bname, level, bad[0][1]), "text=%r" % full[:400]))
                continue
            if any(p[0] == "exc" for p in parts):
                if level != "load":
                    failures.append(Failure("single-document-rejected:%s:%s" % (bname, level), "%r\n%r" % (parts, singles)))
                continue        # a constructor error in one document legitimately ends load_all there
            alone = [x for p in parts for x in p[1]]
            if whole[0] == "exc":
                failures.append(Failure("stream-rejected-but-documents-load:%s:%s:%s" % (bname, level, whole[1]), "text=%r" % full[:400]))
            elif whole[1] != alone:
                k = 0
                while k < min(len(alone), len(whole[1])) and alone[k] == whole[1][k]:
                    k += 1
                failures.append(Failure("stream-differs-from-documents:%s:%s" % (bname, level),
                                        "document %d: alone %.200r\nin stream %.200r\ntext=%r" % (k, alone[k:k + 1], whole[1][k:k + 1], full[:400])))
        if SL is None:
            continue
        # leakage probes built from the generated stream
        evals += 3
        probes = [("%TAG !zz! tag:z.org,2000:\n--- !zz!a x\n--- !zz!b y\n", "ParserError", "tag-handle-leaks-into-next-document"),
                  ("--- &leak [1]\n--- *leak\n", "ComposerError", "anchor-leaks-into-next-document")]
        for text, want, key in probes:
            try:
                list(yaml.compose_all(text, Loader=L))
                failures.append(Failure("%s:%s" % (key, bname), "accepted: %r" % text))
            except yaml.YAMLError as e:
                if type(e).__name__ != want:
                    failures.append(Failure("%s:%s:wrong-error:%s" % (key, bname, type(e).__name__), "%r" % text))
        if level == "load":
            D = yaml.SafeDumper if bname == "py" else yaml.CSafeDumper
            s1, s2 = [1], {"k": 2}
            out = yaml.dump_all([[s1, s1], [s2, s2, s1, s1]], Dumper=D)
            parts_ = out.split("---")
            if out.count("&id001") != 2 or "&id003" in out or (len(parts_) > 1 and "&id001" not in parts_[-1]):
                failures.append(Failure("alias-numbering-leaks-into-next-document:%s" % bname, repr(out)))
        evs = list(yaml.parse("%YAML 1.1\n--- a\n--- b\n", Loader=L))
        ds = [e for e in evs if type(e).__name__ == "DocumentStartEvent"]
        if len(ds) != 2 or ds[0].version != (1, 1) or ds[1].version is not None:
            failures.append(Failure("yaml-directive-leaks-into-next-document:%s" % bname, repr([d.version for d in ds])))
    # the writing side: emitting the documents of a stream together denotes what emitting each of them alone denotes
    # (tag handles, prepared tags, anchors and analysis results of one document are not carried into the next)
    try:
        src = list(yaml.parse(full, Loader=yaml.Loader))
    except yaml.YAMLError:
        src = None
    if src is not None:
        per, cur = [], None
        for e in src:
            if type(e).__name__ == "DocumentStartEvent":
                cur = []
                per.append(cur)
            if cur is not None and type(e).__name__ != "StreamEndEvent":
                cur.append(e)
        if len(per) >= 2:
            cl.add("emit:stream-of-documents")
            for dname, D in [("py", yaml.Dumper)] + ([("c", yaml.CDumper)] if have_c() else []):
                evals += 1 + len(per)

                def emit_parse(docs_):
                    try:
                        text = yaml.emit([src[0]] + [e for d in docs_ for e in d] + [src[-1]], Dumper=D)
                    except yaml.YAMLError as e:
                        return ("emit-exc", type(e).__name__)
                    try:
                        evs = list(yaml.parse(text, Loader=yaml.Loader))
                    except yaml.YAMLError as e:
                        return ("parse-exc", type(e).__name__, text)
                    out, c = [], None
                    for e in evs:
                        if type(e).__name__ == "DocumentStartEvent":
                            c = []
                            out.append(c)
                        if c is not None:
                            c.append(e)
                    return ("ok", [[x for x in _norm_anchor_events(p) if x[0] != "DocumentEndEvent"] for p in out])
                whole = emit_parse(per)
                parts = [emit_parse([d]) for d in per]
                if any(p[0] != "ok" for p in parts):
                    continue
                alone = [x for p in parts for x in p[1]]
                if whole[0] != "ok":
                    failures.append(Failure("emitted-stream-fails-but-documents-alone-do-not:%s:%s" % (dname, whole[1]), "%.300r\ntext=%r" % (whole, full[:300])))
                elif [[(x[0],) + x[2:] for x in d] for d in whole[1]] != [[(x[0],) + x[2:] for x in d] for d in alone]:
                    k = 0
                    while k < min(len(alone), len(whole[1])) and alone[k] == whole[1][k]:
                        k += 1
                    failures.append(Failure("emitted-stream-differs-from-documents-alone:%s" % dname,
                                            "document %d: alone %.300r\nin stream %.300r\ntext=%r" % (k, alone[k:k + 1], whole[1][k:k + 1], full[:300])))
    nt = bool(cl & {"directive:TAG-in-non-last-document", "directive:YAML-in-non-last-document", "anchor-in-non-last-document"})
    return Eval(failures, sorted(cl), nontrivial=nt, ident=full, evals=evals, sample={"text": full[:300]})


def stream_cases():
    return st.fixed_dictionaries({
        "docs": st.lists(gd.documents(6), min_size=2, max_size=5),
        "nl": st.sampled_from(gd.NLS),
        "bom": st.sampled_from([False, False, False, True]),
        "lead_comment": st.sampled_from([False, False, True]),
        "strip_final": st.sampled_from([False, False, True]),
    })


# ------------------------------------------------------------------------------------------------
# the same argument objects handed to two calls: the second call gives what it gives on fresh, equal arguments, and the
# caller's events / nodes / values are not changed by a call

SHARED_OPTS = [{}, {"canonical": True}, {"allow_unicode": True}, {"allow_unicode": False}, {"width": 10}, {"indent": 6}, {"line_break": "\r\n"},
               {"default_style": '"'}, {"default_style": "|"}, {"default_flow_style": True}, {"default_flow_style": False}, {"explicit_start": True},
               {"version": (1, 1)}, {"tags": {"!e!": "tag:example.com,2000:"}}, {"sort_keys": False}, {"encoding": "utf-16-le"}]
EMIT_KEYS = ("canonical", "indent", "width", "allow_unicode", "line_break")
SER_KEYS = EMIT_KEYS + ("encoding", "explicit_start", "explicit_end", "version", "tags")


def _full_summary(x):
    """Every public attribute of an event / node graph (the caller's view of its own objects)."""
    seen = {}

    def go(o):
        if isinstance(o, (str, bytes, int, float, bool, type(None))):
            return repr(o)
        if id(o) in seen:
            return ("ref", seen[id(o)])
        if isinstance(o, (list, tuple)):
            seen[id(o)] = len(seen)
            return (type(o).__name__,) + tuple(go(i) for i in o)
        if isinstance(o, dict):
            seen[id(o)] = len(seen)
            return ("dict",) + tuple((go(k), go(v)) for k, v in o.items())
        if type(o).__name__ == "Mark":
            return ("mark", o.index, o.line, o.column)
        if hasattr(o, "__dict__"):
            seen[id(o)] = len(seen)
            return (type(o).__name__,) + tuple((k, go(v)) for k, v in sorted(vars(o).items()))
        return repr(o)
    return go(x)


def eval_shared(case):
    import yaml
    stream, i1, i2, level = case
    text = gd.render(stream).text
    o1, o2 = SHARED_OPTS[i1 % len(SHARED_OPTS)], SHARED_OPTS[i2 % len(SHARED_OPTS)]
    cl = {"shared:%s" % level}
    failures = []
    evals = 0
    backends = [("py", yaml.Loader, yaml.Dumper, yaml.SafeLoader, yaml.SafeDumper)]
    if have_c():
        backends.append(("c", yaml.CLoader, yaml.CDumper, yaml.CSafeLoader, yaml.CSafeDumper))
    for bname, L, D, SL, SD in backends:
        def make():
            if level == "emit":
                return list(yaml.parse(text, Loader=L))
            if level == "serialize":
                return list(yaml.compose_all(text, Loader=L))
            return list(yaml.load_all(text, Loader=SL))

        def call(arg, opts):
            if level == "emit":
                return yaml.emit(arg, Dumper=D, **{k: v for k, v in opts.items() if k in EMIT_KEYS})
            if level == "serialize":
                return yaml.serialize_all(arg, Dumper=D, **{k: v for k, v in opts.items() if k in SER_KEYS})
            return yaml.dump_all(arg, Dumper=SD, **opts)
        try:
            shared, fresh = make(), make()
        except yaml.YAMLError:
            cl.add("shared:text-rejected")
            continue
        except RecursionError:
            raise
        before = _full_summary(shared)
        outs = []
        for arg, opts_seq in ((shared, (o1, o2)), (fresh, (o2,))):
            for o in opts_seq:
                evals += 1
                try:
                    outs.append(("ok", call(arg, o)))
                except yaml.YAMLError as e:
                    outs.append(("exc", type(e).__name__))
                except RecursionError:
                    raise
                except Exception as e:
                    outs.append(("exc", "non-yaml:" + exc_key(e)))
        if _full_summary(shared) != before:
            failures.append(Failure("arguments-changed-by-call:%s:%s" % (level, bname), "options %r then %r\ntext=%r" % (o1, o2, text[:300])))
        if outs[1] != outs[2]:
            failures.append(Failure("second-call-on-same-arguments-differs:%s:%s" % (level, bname),
                                    "after a call with %r, the call with %r gave %.200r; on fresh equal arguments %.200r\ntext=%r" % (o1, o2, outs[1], outs[2], text[:300])))
        if o1 != o2:
            cl.add("shared:different-options")
    return Eval(failures, sorted(cl), nontrivial="shared:different-options" in cl, ident=repr(case), evals=evals,
                sample={"text": text[:200], "level": level, "options": [repr(o1), repr(o2)]})


def shared_cases():
    streams = st.fixed_dictionaries({"docs": st.lists(gd.documents(6), min_size=1, max_size=3), "nl": st.just("\n"), "bom": st.just(False),
                                     "lead_comment": st.just(False), "strip_final": st.just(False)})
    return st.tuples(streams, st.integers(0, 15), st.integers(0, 15), st.sampled_from(["emit", "emit", "serialize", "dump"]))


# ------------------------------------------------------------------------------------------------
# streams whose documents leave construction state behind (instances with __setstate__, shared state, recursion)

def eval_stateful(case):
    import yaml
    from checks import c13
    from vlib.c11_pool import summarize
    c13._paths()
    docs, block, _ = case
    text, roots, cl13, through, level, _d = c13.render(case)
    singles = [c13.render(([d], block, None))[0] for d in docs]
    cl = {"stateful-stream", "docs=%d" % len(docs)}
    failures = []
    evals = 0
    for lname, L in c13.loader_legs(level):
        evals += 1 + len(singles)

        def run(t):
            try:
                return ("ok", [summarize(o) for o in yaml.load_all(t, Loader=L)])
            except yaml.YAMLError as e:
                return ("exc", type(e).__name__)
            except RecursionError:
                raise
            except Exception as e:
                return ("exc", "non-yaml-error:%s" % exc_key(e))
        whole = run(text)
        parts = [run(t) for t in singles]
        if any(p[0] == "exc" for p in parts):
            cl.add("stateful-stream:a-document-is-rejected-alone")
            continue
        alone = [x for p in parts for x in p[1]]
        if whole[0] == "exc":
            failures.append(Failure("stream-rejected-but-documents-load:%s:load:%s" % (lname, whole[1]), "text=%r" % text[:400]))
        elif whole[1] != alone:
            failures.append(Failure("stream-differs-from-documents:%s:load" % lname, "alone %.300r\nin stream %.300r\ntext=%r" % (alone, whole[1], text[:400])))
    return Eval(failures, sorted(cl), nontrivial=True, ident=text, evals=evals, sample={"text": text[:300]})


def stateful_cases():
    from checks import c13
    return c13.stateful_then_recursive_cases()


def arms(tier):
    return [Arm("histories", eval_history, histories, quick=1200, thorough=40000),
            Arm("focused", eval_history, focused_histories, quick=1200, thorough=40000),
            Arm("streams", eval_stream, stream_cases, quick=3000, thorough=150000),
            Arm("shared-arguments", eval_shared, shared_cases, quick=3000, thorough=150000),
            Arm("stateful-streams", eval_stateful, stateful_cases, quick=2500, thorough=100000)]


REQUIRED_CLASSES = ["success-after-failure", "generator-abandoned", "call:dump", "call:emit", "call:serialize", "call:load_all",
                    "step-fails:ScannerError", "step-fails:ConstructorError", "step-fails:RepresenterError", "step-fails:EmitterError",
                    "directive:TAG-in-non-last-document", "anchor-in-non-last-document"]
