"""C08 - plain scalars are typed exactly by the YAML 1.1 rules, on load and on dump alike."""
import datetime
import itertools
import math

from hypothesis import strategies as st

from vlib import gen_values as gv
from vlib import ref_scalar as rs
from vlib.compare import scalar_equal
from vlib.gen_docs import plain_ok
from vlib.runner import Arm, Eval, Failure
from vlib.util import exc_key, exc_msg, have_c

PROPERTY = "C08"
LEVEL = "exploration"
RULE = ("Bounded-exhaustive: every string of length <=4 (quick) / <=5 (thorough) over the 30-symbol alphabet "
        "'0 1 7 8 9 + - _ . : e E x b o a f l n s t u y Y N T ~ < = space'; plus Hypothesis-generated members and one-edit "
        "near-members of every type production (ints in 5 bases with signs/underscores, floats incl. exponent/sexagesimal/inf/nan, "
        "dates, timestamps with all separator/fraction/zone forms and out-of-range fields, bools, nulls, <<, =), and values "
        "(int/float/bool/None/date/datetime/str look-alikes) for the dump direction. Oracle: a hand-written character-level "
        "recogniser/evaluator of the YAML 1.1 type repository (vlib/ref_scalar.py, no regular expressions). Checks: resolver of "
        "SafeLoader, SafeDumper and the C classes classifies the plain text as the reference does and as str when non-plain; "
        "safe_load of the plain text gives the reference value type-strictly (or a YAMLError exactly when the reference says the "
        "form has no value); quoted/literal/folded forms give the str; safe_load(safe_dump(v)) is type-strictly v for strings that "
        "look like other types and for every generated scalar value, under every default_style, on both back-ends. "
        "Non-trivial = reference type is not str, or the text is one edit away from such a text.")
ASSUMPTIONS = [
    "merge ('<<') and value ('=') outside a mapping key have no value: only their classification is checked, and that loading them raises a YAML error",
    "sexagesimal floats are compared with relative tolerance 1e-12 (the rules do not fix a summation order)",
]

ALPHABET = list("01789+-_.:eExboaflnstuyYNT~<= ")
assert len(ALPHABET) == 30

_resolvers = {}


def resolvers():
    import yaml
    if not _resolvers:
        names = ["SafeLoader", "SafeDumper", "Loader", "Dumper"]
        if have_c():
            names += ["CSafeLoader", "CSafeDumper"]
        import io
        for n in names:
            cls = getattr(yaml, n)
            _resolvers[n] = cls("") if n.endswith("Loader") else cls(io.StringIO())
    return _resolvers


_base = {}


def base_resolvers():
    import io
    import yaml
    if not _base:
        _base["BaseLoader"] = yaml.BaseLoader("")
        _base["BaseDumper"] = yaml.BaseDumper(io.StringIO())
    return _base


def value_equal(a, b, sexagesimal=False):
    if type(a) is not type(b):
        return False
    if isinstance(a, float) and sexagesimal and a == a and b == b and not math.isinf(a):
        return math.isclose(a, b, rel_tol=1e-12, abs_tol=0.0) and math.copysign(1, a) == math.copysign(1, b)
    return scalar_equal(a, b)


def check_text(text, full):
    """All load-side checks for one text.  full=False: resolver + one load only (bulk of the exhaustive arm)."""
    import yaml
    from yaml.nodes import ScalarNode
    failures = []
    evals = 0
    kind = rs.classify(text)
    tag = rs.tag_of(kind)
    if full or kind != "str":
        # the Base classes resolve every scalar to str; asking them first also shows whether what one resolver class
        # decided for a text leaks into another class
        for bname, b in base_resolvers().items():
            evals += 1
            got = b.resolve(ScalarNode, text, (True, False))
            if got != rs.tag_of("str"):
                failures.append(Failure("resolver:%s:not-str" % bname, "text=%r got %s" % (text, got)))
    for name, r in resolvers().items():
        evals += 1
        got = r.resolve(ScalarNode, text, (True, False))
        if got != tag:
            failures.append(Failure("resolver:%s:%s-as-%s" % (name, kind, got.rsplit(":", 1)[-1]), "text=%r expected %s got %s" % (text, tag, got)))
        if full or kind != "str":
            got = r.resolve(ScalarNode, text, (False, True))
            if got != rs.tag_of("str"):
                failures.append(Failure("resolver:%s:non-plain-not-str" % name, "text=%r got %s" % (text, got)))
    exp = rs.evaluate(text)
    loaders = [("py", yaml.SafeLoader)]
    if have_c() and (full or kind != "str"):
        loaders.append(("c", yaml.CSafeLoader))
    sexa = kind == "float" and ":" in text
    for lname, L in loaders:
        evals += 1
        as_plain = plain_ok(text, False) or text == ""
        try:
            if as_plain:
                got = yaml.load("- " + text + "\n", Loader=L)[0] if text != "" else yaml.load("-\n", Loader=L)[0]
                if full and exp is not rs.INVALID and exp is not rs.UNDEFINED:
                    # the same plain scalar in other positions - mapping value, anchored (and reached through its alias), flow
                    # item: its type does not depend on where it stands or on node properties in front of it
                    sp = " " if text else ""
                    ctxs = [("value", "k: %s\n" % text, lambda r: [r["k"]]),
                            ("anchored", "- &a%s%s\n- *a\n" % (sp, text), lambda r: [r[0], r[1]]),
                            ("anchored-value", "k: &a%s%s\nj: *a\n" % (sp, text), lambda r: [r["k"], r["j"]])]
                    if plain_ok(text, True) or text == "":
                        ctxs.append(("flow", "[x, &a%s%s , *a]\n" % (sp, text), lambda r: [r[1], r[2]]))
                    from vlib.runner import h64
                    if h64(text) % 8 == 0 and "\n" not in text and text.strip() == text and text:
                        # ... as the root of the first document of a STREAM, the next document's marker standing right at the
                        # reader's refill boundary (one in eight texts): the marker is not part of the scalar
                        import io as _io
                        for off in (2, 1):
                            padn = 8192 - off - len(text) - 1
                            sdoc = "#" + "p" * (padn - 2) + "\n" + text + "\n--- next\n"
                            ctxs.append(("stream-root-before-marker-at-refill-boundary", _io.StringIO(sdoc), None))
                    for cname, doc, pick in ctxs:
                        if pick is None:
                            evals += 1
                            try:
                                docs_ = list(yaml.load_all(doc, Loader=L))
                            except yaml.YAMLError as e:
                                failures.append(Failure("load:%s:%s:rejected-in-context:%s" % (lname, kind, cname), "text=%r %s" % (text, exc_msg(e))))
                                continue
                            if len(docs_) != 2 or docs_[1] != "next" or not value_equal(docs_[0], exp, sexa):
                                failures.append(Failure("load:%s:%s:wrong-value-in-context:%s" % (lname, kind, cname),
                                                        "text=%r gave %.120r expected [%r, 'next']" % (text, docs_, exp)))
                            continue
                        evals += 1
                        try:
                            vals = pick(yaml.load(doc, Loader=L))
                        except yaml.YAMLError as e:
                            failures.append(Failure("load:%s:%s:rejected-in-context:%s" % (lname, kind, cname), "doc=%r %s" % (doc, exc_msg(e))))
                            continue
                        for v in vals:
                            if not value_equal(v, exp, sexa):
                                failures.append(Failure("load:%s:%s:wrong-value-in-context:%s" % (lname, kind, cname),
                                                        "doc=%r gave %r expected %r" % (doc, v, exp)))
                                break
            else:
                # not writable as a plain scalar on its own: drive the constructor with the resolved node
                ld = L("")
                try:
                    got = ld.construct_document(ScalarNode(resolvers()["SafeLoader"].resolve(ScalarNode, text, (True, False)), text))
                finally:
                    ld.dispose()
            outcome = "value"
        except yaml.YAMLError as e:
            outcome = "yamlerror"
            got = e
        except RecursionError:
            raise
        except Exception as e:
            failures.append(Failure("load:%s:%s:non-yaml-error:%s" % (lname, kind, exc_key(e)), "text=%r %s" % (text, exc_msg(e))))
            continue
        if exp is rs.INVALID or exp is rs.UNDEFINED:
            if outcome != "yamlerror":
                failures.append(Failure("load:%s:%s:no-error-for-valueless-form" % (lname, kind), "text=%r gave %r" % (text, got)))
        elif outcome == "yamlerror":
            failures.append(Failure("load:%s:%s:rejected" % (lname, kind), "text=%r %s" % (text, exc_msg(got))))
        elif not value_equal(got, exp, sexa):
            failures.append(Failure("load:%s:%s:wrong-value" % (lname, kind), "text=%r gave %r expected %r" % (text, got, exp)))
    if full or kind != "str":
        # non-plain forms are always strings
        forms = []
        if "'" not in text and "\n" not in text:
            forms.append(("single", "- '%s'\n" % text))
        if "\"" not in text and "\\" not in text and "\n" not in text:
            forms.append(("double", "- \"%s\"\n" % text))
        if text and "\n" not in text and text[0] != " ":
            forms.append(("literal", "- |-\n  %s\n" % text))
            forms.append(("folded", "- >-\n  %s\n" % text))
        for fname, doc in forms:
            for lname, L in loaders:
                evals += 1
                try:
                    got = yaml.load(doc, Loader=L)[0]
                except Exception as e:
                    failures.append(Failure("quoted:%s:%s:raised:%s" % (lname, fname, exc_key(e)), "doc=%r %s" % (doc, exc_msg(e))))
                    continue
                if type(got) is not str or got != text:
                    failures.append(Failure("quoted:%s:%s:not-the-string" % (lname, fname), "doc=%r gave %r" % (doc, got)))
        # dump direction for the str that looks like another type
        f, e = check_dump_value(text, styles=(None, "'", '"') if not full else (None, "'", '"', "|", ">"))
        failures.extend(f)
        evals += e
    return failures, evals, kind


def check_dump_value(v, styles=(None,)):
    import yaml
    failures = []
    evals = 0
    dumpers = [("py", yaml.SafeDumper)] + ([("c", yaml.CSafeDumper)] if have_c() else [])
    loaders = [("py", yaml.SafeLoader)] + ([("c", yaml.CSafeLoader)] if have_c() else [])
    for dname, D in dumpers:
        for style in styles:
            evals += 1
            try:
                text = yaml.dump([v], Dumper=D, default_style=style)
            except Exception as e:
                failures.append(Failure("dump:%s:raised:%s" % (dname, exc_key(e)), "value=%r %s" % (v, exc_msg(e))))
                continue
            for lname, L in loaders:
                evals += 1
                try:
                    back = yaml.load(text, Loader=L)[0]
                except Exception as e:
                    failures.append(Failure("dump:%s>%s:%s:reload-raised:%s" % (dname, lname, type(v).__name__, exc_key(e)),
                                            "value=%r text=%r %s" % (v, text, exc_msg(e))))
                    continue
                if not scalar_equal(v, back):
                    failures.append(Failure("dump:%s>%s:%s:style=%s:changed" % (dname, lname, type(v).__name__, style),
                                            "value=%r text=%r reloaded=%r" % (v, text, back)))
        # the value as the ROOT of a document, alone and followed by further documents, with and without directives and explicit
        # markers: what follows the written scalar (end of stream, '...', a directive, '---') must not become part of it
        for opts in ({}, {"version": (1, 1)}, {"tags": {"!e!": "tag:example.com,2000:"}}, {"explicit_end": True}, {"explicit_start": True, "version": (1, 2)}):
            evals += 1
            try:
                text = yaml.dump_all([v, v, [v]], Dumper=D, **opts)
            except Exception as e:
                failures.append(Failure("dump_all:%s:raised:%s" % (dname, exc_key(e)), "value=%r %s" % (v, exc_msg(e))))
                continue
            for lname, L in loaders:
                evals += 1
                try:
                    back = list(yaml.load_all(text, Loader=L))
                except Exception as e:
                    failures.append(Failure("dump_all:%s>%s:%s:reload-raised:%s" % (dname, lname, type(v).__name__, exc_key(e)),
                                            "value=%r options=%r text=%r %s" % (v, opts, text, exc_msg(e))))
                    continue
                if len(back) != 3 or not scalar_equal(v, back[0]) or not scalar_equal(v, back[1]) or not isinstance(back[2], list) or not scalar_equal(v, back[2][0]):
                    failures.append(Failure("dump_all:%s>%s:%s:root-value-changed" % (dname, lname, type(v).__name__),
                                            "value=%r options=%r text=%r reloaded=%r" % (v, opts, text, back)))
    return failures, evals


def near(kind_of_text):
    return kind_of_text != "str"


def eval_short(text):
    full = len(text) <= 2
    failures, evals, kind = check_text(text, full)
    nontrivial = kind != "str"
    if not nontrivial and text:
        # one deletion away from a typed text?
        for i in range(len(text)):
            if rs.classify(text[:i] + text[i + 1:]) not in ("str", "null"):
                nontrivial = True
                break
    return Eval(failures, ["type:" + kind], nontrivial=nontrivial, ident=text, evals=evals, sample={"text": text, "type": kind})


def enum_short(shard, nshards, tier):
    maxlen = 5 if tier == "thorough" else 4
    i = 0
    for n in range(0, maxlen + 1):
        for tup in itertools.product(ALPHABET, repeat=n):
            if i % nshards == shard:
                yield "".join(tup)
            i += 1


# ------------------------------------------------------------------------------------------------
# generated members and near-members

def member_texts():
    digits = st.text(alphabet="0123456789", min_size=1, max_size=8)
    ud = st.text(alphabet="0123456789_", min_size=0, max_size=6)
    sign = st.sampled_from(["", "", "-", "+"])
    dec = st.tuples(sign, st.sampled_from(list("123456789")), ud).map("".join)
    octal = st.tuples(sign, st.just("0"), st.text(alphabet="01234567_", min_size=1, max_size=8)).map("".join)
    binary = st.tuples(sign, st.just("0b"), st.text(alphabet="01_", min_size=0, max_size=10)).map("".join)
    hexa = st.tuples(sign, st.just("0x"), st.text(alphabet="0123456789abcdefABCDEF_", min_size=0, max_size=8)).map("".join)
    sx_part = st.one_of(st.integers(0, 59).map(str), st.integers(0, 59).map(lambda n: "%02d" % n), st.sampled_from(["60", "99", "5", "059", ""]))
    sexa = st.tuples(sign, st.sampled_from(list("123456789")), ud, st.lists(sx_part, min_size=1, max_size=3)).map(
        lambda t: t[0] + t[1] + t[2] + "".join(":" + p for p in t[3]))
    exp = st.one_of(st.just(""), st.tuples(st.sampled_from(["e", "E"]), st.sampled_from(["+", "-", ""]), st.text(alphabet="0123456789", min_size=0, max_size=3)).map("".join))
    flt = st.tuples(sign, st.text(alphabet="0123456789", min_size=0, max_size=4), ud, st.just("."), ud, exp).map("".join)
    sexaf = st.tuples(sexa, st.just("."), ud).map("".join)
    special = st.sampled_from([".inf", "-.inf", "+.inf", ".Inf", ".INF", "-.INF", ".iNf", ".nan", ".NaN", ".NAN", "-.nan", "+.nan", ".Nan", "nan", "inf",
                               "yes", "Yes", "YES", "yEs", "no", "No", "NO", "true", "True", "TRUE", "tRue", "false", "False", "FALSE", "on", "On", "ON", "oN",
                               "off", "Off", "OFF", "y", "Y", "n", "N", "~", "null", "Null", "NULL", "nULL", "nil", "<<", "<", "<<<", "=", "==", "0", "-0", "+0",
                               "00", "0_", "0b", "0x", "0o7", "0o17", "08", "09", "1_", "_1", "1__2", "0.", ".0", ".", "..", "1.", "-.5", "+.5", "._5", ".5_",
                               "1e3", "1.0e3", "1.e+3", "1.5e+400", "1.5e-400", "0x1F", "0X1F", "0B1", "1:60", "1:5:60", "01:30", "1:30:", "190:20:30", "190:20:30.15"])
    year = st.one_of(st.integers(0, 9999).map(lambda y: "%04d" % y), st.sampled_from(["2001", "0000", "0001", "9999", "201", "20011"]))
    mon = st.one_of(st.integers(0, 13).map(str), st.integers(0, 13).map(lambda n: "%02d" % n))
    day = st.one_of(st.integers(0, 32).map(str), st.integers(0, 32).map(lambda n: "%02d" % n))
    date = st.tuples(year, mon, day).map("-".join)
    hh = st.one_of(st.integers(0, 25).map(str), st.integers(0, 25).map(lambda n: "%02d" % n))
    mm = st.one_of(st.integers(0, 61).map(lambda n: "%02d" % n), st.sampled_from(["5", "005"]))
    frac = st.one_of(st.just(""), st.text(alphabet="0123456789", min_size=0, max_size=9).map(lambda s: "." + s))
    zone = st.one_of(st.just(""), st.just("Z"), st.just(" Z"), st.just("z"),
                     st.tuples(st.sampled_from(["", " ", "  ", "\t"]), st.sampled_from(["+", "-"]), hh, st.one_of(st.just(""), mm.map(lambda m: ":" + m))).map("".join))
    sep = st.sampled_from(["T", "t", " ", "  ", "\t", "", "_"])
    stamp = st.tuples(date, sep, hh, mm, mm, frac, zone).map(lambda t: "%s%s%s:%s:%s%s%s" % t)
    # non-ASCII look-alikes: digits for which \\d / isdigit() / int() would say yes, full-width and dotted letters for which
    # lower()/upper()/casefold() would say yes - every one of them is a string under the YAML 1.1 rules
    lookalike = st.sampled_from(["\uff11\uff12", "\u0661\u0662", "1\uff12", "0x\uff11", "1.\uff15", "\uff12001-01-01", "2001-01-0\u0661", "\uff39\uff25\uff33",
                                 "\uff54\uff52\uff55\uff45", "tru\uff45", "nul\u217c", "\u0130nf", ".\u0131nf", ".\u0130NF", "\xb2", "1\xb2", "\xbd", "1:\u0663\u0660",
                                 "\u2460", "1e\u0661", "\u06f1\u06f2", "1_\u0967", "o\uff4e", "\uff4f\uff46\uff46", "~\u200b", "\u200b~", "nu\u200bll", "1\u200b2",
                                 "\u221e", "-\u221e", "\u2212" + "1", "\uff0d1", "\uff0b1", "1\uff0e5", "1\u066b5", "\uff1c\uff1c", "\uff1d"])
    # extreme magnitudes and lengths: long sexagesimal numbers (a base-60 float overflows a double beyond 174 groups), long digit runs in
    # every base (below CPython's 4300-digit int<->str limit), floats that overflow / underflow, long runs of '_'
    # (Hypothesis draws short lists: the group count is drawn explicitly)
    gpat = st.sampled_from([":00", ":59", ":0", ":5", ":07", ":30"])
    groups = st.tuples(gpat, st.sampled_from([2, 20, 100, 170, 173, 174, 175, 176, 180, 220]), gpat, st.sampled_from([0, 1, 2, 5])).map(
        lambda t: t[0] * t[1] + t[2] * t[3])
    sexa_long = st.tuples(sign, st.sampled_from(["1", "9", "12", "0", "1_0"]), groups, st.sampled_from(["", "", ".", ".5", ".0", ".999", "._5"])).map("".join)
    n_long = st.sampled_from([20, 60, 200, 308, 309, 400, 1000, 1200])
    dec_long = st.tuples(sign, st.sampled_from(["1", "9", "0", "0x", "0b", "0x_", "1_"]), st.sampled_from(["0", "1", "7", "f", "_", "9"]), n_long).map(
        lambda t: t[0] + t[1] + t[2] * t[3])
    flt_long = st.tuples(sign, st.sampled_from(["1", "9", "0"]), st.sampled_from(["0", "9"]), n_long, st.sampled_from([".", ".0", ".5", ".0e+5", ".0e-5"])).map(
        lambda t: t[0] + t[1] + t[2] * t[3] + t[4])
    flt_exp = st.tuples(sign, st.sampled_from(["1.0", "9.9", "0.0", ".5", "1."]), st.sampled_from(["e+", "e-", "E+"]),
                        st.sampled_from(["307", "308", "309", "323", "324", "325", "400", "9999", "00000400"])).map("".join)
    frac_long = st.tuples(sign, st.sampled_from(["0.", ".", "1."]), st.sampled_from(["0", "9"]), n_long, st.sampled_from(["", "1", "e+400", "e-10"])).map(
        lambda t: t[0] + t[1] + t[2] * t[3] + t[4])
    extreme = st.one_of(sexa_long, sexa_long, dec_long, flt_long, flt_exp, frac_long)
    member = st.one_of(dec, octal, binary, hexa, sexa, flt, flt, sexaf, special, special, date, stamp, stamp, digits, lookalike, extreme)

    def edit(t):
        s, op, pos, ch = t
        if not s:
            return ch
        p = pos % (len(s) + 1)
        if op == "del" and p < len(s):
            return s[:p] + s[p + 1:]
        if op == "ins":
            return s[:p] + ch + s[p:]
        if op == "rep" and p < len(s):
            return s[:p] + ch + s[p + 1:]
        return s
    near_member = st.tuples(member, st.sampled_from(["del", "ins", "rep"]), st.integers(0, 40), st.sampled_from(list("0189_-+.:eExb Tt~<=aZ"))).map(edit)
    return st.one_of(member, member, near_member)


def eval_member(text):
    failures, evals, kind = check_text(text, True)
    return Eval(failures, ["type:" + kind, "generated"], nontrivial=True, ident=text, evals=evals, sample={"text": text, "type": kind})


def dump_values():
    return st.one_of(gv.ints(), gv.floats(), st.booleans(), st.none(), gv.dates(), gv.datetimes(), st.sampled_from(gv.LOOKALIKES),
                     st.integers(-10**40, 10**40), st.floats(allow_nan=False, allow_infinity=False, width=32),
                     st.sampled_from([1e16, 1e17, 1.5e-7, 1e22, 123456789.0e10, 5e-324, 1.7976931348623157e308, -1e17, 1e-5, 100000000000000000000.0]))


def eval_dump(v):
    failures, evals = check_dump_value(v, styles=(None, "'", '"', "|", ">"))
    return Eval(failures, ["dump:" + type(v).__name__], nontrivial=True, ident=repr(v), evals=evals, sample={"value": repr(v)})


MIXED_SHAPES = ["keys-typed-first", "keys-str-first", "typed-key-str-value", "str-key-typed-value", "items", "values", "nested-both"]


def eval_mixed(case):
    """A typed scalar and the str that looks exactly like its written form in ONE document, in key / value / item positions
    and both orders: the dumper classifies every scalar on its own text and type, never by what it decided for another node."""
    import yaml
    from vlib.compare import bisimilar
    v, shape_i = case
    shape = MIXED_SHAPES[shape_i % len(MIXED_SHAPES)]
    # the text the dumper writes for v (taken from the reference classification side: dump alone, strip document end)
    try:
        s = yaml.dump(v, Dumper=yaml.SafeDumper).strip()
    except Exception as e:
        return Eval([Failure("dump-mixed:raised:%s" % exc_key(e), exc_msg(e))], ["dump-mixed"], nontrivial=True, ident=repr(case))
    if s.endswith("\n..."):
        s = s[:-4]
    if s.endswith("..."):
        s = s[:-3].strip()
    if s.startswith("!!") or s.startswith("'") or s.startswith('"'):
        s = str(v)
    doc = {"keys-typed-first": [{v: "a"}, {s: "b"}], "keys-str-first": [{s: "b"}, {v: "a"}], "typed-key-str-value": {v: s},
           "str-key-typed-value": {s: v}, "items": [v, s, v, s], "values": {"k": v, "j": s, "l": v},
           "nested-both": [{v: s}, {s: v}, [s, v]]}[shape]
    failures = []
    evals = 0
    dumpers = [("py", yaml.SafeDumper)] + ([("c", yaml.CSafeDumper)] if have_c() else [])
    loaders = [("py", yaml.SafeLoader)] + ([("c", yaml.CSafeLoader)] if have_c() else [])
    for dname, D in dumpers:
        for flow in (None, True):
            evals += 1
            try:
                text = yaml.dump(doc, Dumper=D, default_flow_style=flow)
            except Exception as e:
                failures.append(Failure("dump-mixed:%s:raised:%s" % (dname, exc_key(e)), "doc=%r %s" % (doc, exc_msg(e))))
                continue
            for lname, L in loaders:
                evals += 1
                try:
                    back = yaml.load(text, Loader=L)
                except Exception as e:
                    failures.append(Failure("dump-mixed:%s>%s:reload-raised:%s" % (dname, lname, exc_key(e)), "doc=%r text=%r %s" % (doc, text, exc_msg(e))))
                    continue
                d = bisimilar(doc, back, key_order=False)
                if d:
                    failures.append(Failure("dump-mixed:%s>%s:%s:%s:changed" % (dname, lname, type(v).__name__, shape),
                                            "%s\ndoc=%r text=%r reloaded=%r" % (d, doc, text, back)))
    return Eval(failures, ["dump-mixed:" + shape, "dump-mixed:" + type(v).__name__], nontrivial=True, ident=repr(case), evals=evals,
                sample={"value": repr(v), "lookalike": s, "shape": shape})


def mixed_cases():
    typed = st.one_of(gv.ints(), st.floats(allow_nan=False), st.booleans(), st.none(), gv.dates(), gv.datetimes(),
                      st.sampled_from([0, 1, -1, 10, 0.5, 1e3, float("inf"), True, False, None]))
    return st.tuples(typed, st.integers(0, len(MIXED_SHAPES) - 1))


def arms(tier):
    return [
        Arm("exhaustive", eval_short, enum=enum_short, exhaustive=True),
        Arm("members", eval_member, member_texts, quick=40000, thorough=2000000),
        Arm("dump-values", eval_dump, dump_values, quick=8000, thorough=400000),
        Arm("dump-mixed", eval_mixed, mixed_cases, quick=4000, thorough=200000),
    ]
