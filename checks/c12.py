"""C12 - multi-document streams keep their document boundaries (values, node graphs, events)."""
import re

from hypothesis import strategies as st

from vlib import gen_values as gv
from vlib import gen_events as ge
from vlib.compare import bisimilar
from vlib.runner import Arm, Eval, Failure
from vlib.util import exc_key, exc_msg, strings_in, have_c, has_foldable_more_indented_line, shorthand_with_flow_indicator

PROPERTY = "C12"
LEVEL = "exploration"
RULE = ("Hypothesis-generated lists of 0..5 documents at three levels: values (dump_all -> load_all), node graphs built "
        "directly incl. shared nodes and empty/open-ended roots (serialize_all -> compose_all), event streams (emit -> parse); "
        "x dump options x {pure-Python, LibYAML} dumper x {pure-Python, LibYAML} loader. Oracle: exactly n documents come "
        "back, each equal to its input (type-strict bisimulation / node equality with identity partition / event "
        "equivalence), and the text written for the first k documents is a prefix of the text for all n (modulo the "
        "'...' closing that STREAM-END adds after an open-ended last document). Roots are weighted towards the boundary "
        "shapes the property names. Non-trivial = n >= 2, or a boundary-shaped root, or directives; distinct = hash of case.")
ASSUMPTIONS = [
    "prefix independence is compared on decoded text (UTF-16 output carries one BOM at the start of the stream)",
    "a trailing '...' line of the k-document text may be absent in the n-document text only when explicit_end is not requested "
    "(it is then written by STREAM-END for an open-ended document, not by the document)",
    "scalar/collection styles are requests and are not compared at node/event level",
]

BOUNDARY_STRINGS = ["", "\n", "a\n\n", "a\n", "---", "...", "a\n...\nb", "a\n---\nb", "%TAG", "% a", "#c", "# c", " ", "\n\n",
                    "--- a", "... a", "a\n \n", "...\n", "---\n", "a\n\n\n", "\n...", "\t", "- a", "? a", "|", ">", "|+", "a: b",
                    "\u2028", "\x85", "a\r\n", "\ufeff"]


_path_dumpers = {}


def dumpers(safe=True, customised=False):
    import yaml
    out = [("py", yaml.SafeDumper if safe else yaml.Dumper)]
    if have_c():
        out.append(("c", yaml.CSafeDumper if safe else yaml.CDumper))
    if customised:
        # application dumpers that use path resolvers: the resolver's depth stack is walked for every node and every alias,
        # in every document of a stream
        if not _path_dumpers:
            for name, base in [("py-path", yaml.SafeDumper)] + ([("c-path", yaml.CSafeDumper)] if have_c() else []):
                D = type("C12PathDumper", (base,), {})
                D.add_path_resolver("!c12-item", [None], str)
                D.add_path_resolver("!c12-key-k", ["k"], str)
                D.add_path_resolver("!c12-deep", [None, None], dict)
                D.add_path_resolver("!c12-first", [(dict, None), (list, 0)])
                D.add_path_resolver("!c12-root", [], list)
                _path_dumpers[name] = D
        out += sorted(_path_dumpers.items())
    return out


def loaders(safe=True):
    import yaml
    out = [("py", yaml.SafeLoader if safe else yaml.Loader)]
    if have_c():
        out.append(("c", yaml.CSafeLoader if safe else yaml.CLoader))
    return out


def decode(text, opts):
    if isinstance(text, bytes):
        enc = opts.get("encoding") or "utf-8"
        t = text.decode(enc)
        if t.startswith("\ufeff"):
            t = t[1:]
        return t
    return text


_trail = re.compile("(?:^|(?<=[\\r\\n\\x85\\u2028\\u2029]))\\.\\.\\.(?:\\r\\n|\\r|\\n)\\Z")


def prefix_ok(tk, tn, explicit_end):
    """tk = text for the first k documents, tn = text for all documents."""
    if tn.startswith(tk):
        return True
    if explicit_end:
        return False
    m = _trail.search(tk)
    if m and tn.startswith(tk[:m.start()]):
        return True
    return False


def check_prefixes(produce, n, opts, dname, failures):
    """produce(k) -> decoded text for the first k documents (k = n is the full text)."""
    evals = 0
    if n < 2:
        return 0
    full = produce(n)
    for k in range(1, n):
        evals += 1
        tk = produce(k)
        if not prefix_ok(tk, full, bool(opts.get("explicit_end"))):
            failures.append(Failure("text-depends-on-following-documents:%s" % dname,
                                    "k=%d\nfirst-k text=%r\nfull text=%r" % (k, tk[-300:], full[:600])))
            break
    return evals


# ------------------------------------------------------------------------------------------------
# level 1: values

def is_boundary_value(v):
    return (isinstance(v, str) and (v in BOUNDARY_STRINGS or v == "" or v[-1:] in "\n\r\x85\u2028\u2029" or v[:1] in "%#"
                                    or "---" in v or "..." in v)) or v is None or v == [] or v == {} or v == set()


def eval_values(case):
    import yaml
    bps, opts = case
    docs = [gv.build(bp)[0] for bp in bps]
    n = len(docs)
    cl = set()
    cl.add("values:n=%d" % n if n < 3 else "values:n>=3")
    if any(is_boundary_value(d) for d in docs):
        cl.add("root:boundary-shape")
    if any(isinstance(d, str) and d == "" for d in docs):
        cl.add("root:empty-string")
    if any(d is None for d in docs):
        cl.add("root:null")
    if any(isinstance(d, str) and d.endswith("\n") for d in docs):
        cl.add("root:trailing-break(keep-chomp)")
    if opts.get("version") or opts.get("tags"):
        cl.add("directives")
    if opts:
        cl.add("opts:non-default")
    failures = []
    evals = 0
    for dname, D in dumpers(customised=True):
        def produce(k, D=D):
            return decode(yaml.dump_all([gv.build(bp)[0] for bp in bps[:k]], Dumper=D, **opts), opts)
        try:
            text = yaml.dump_all(docs, Dumper=D, **opts)
        except RecursionError:
            raise
        except Exception as e:
            failures.append(Failure("dump_all-raised:%s:%s" % (dname, exc_key(e)), exc_msg(e)))
            continue
        evals += 1
        for lname, L in loaders():
            evals += 1
            try:
                back = list(yaml.load_all(deliver(text), Loader=L))
            except RecursionError:
                raise
            except Exception as e:
                failures.append(Failure("load_all-rejects:%s>%s:%s" % (dname, lname, exc_key(e)),
                                        "%s\ntext=%r" % (exc_msg(e), text[:500])))
                continue
            if len(back) != n:
                failures.append(Failure("document-count:%s>%s" % (dname, lname),
                                        "%d documents written, %d read\ntext=%r" % (n, len(back), text[:500])))
                continue
            for i, (a, b) in enumerate(zip(docs, back)):
                diff = bisimilar(a, b, key_order=not opts.get("sort_keys", True))
                if diff is not None:
                    failures.append(Failure("document-differs:%s>%s" % (dname, lname),
                                            "document %d: %s\ntext=%r" % (i, diff, text[:500])))
                    break
        try:
            evals += check_prefixes(produce, n, opts, dname, failures)
        except RecursionError:
            raise
        except Exception as e:
            failures.append(Failure("dump_all-prefix-raised:%s:%s" % (dname, exc_key(e)), exc_msg(e)))
    nt = n >= 2 or "root:boundary-shape" in cl or "directives" in cl
    return Eval(failures, sorted(cl), nontrivial=nt, ident=repr(case), evals=evals,
                sample={"documents": [repr(d)[:80] for d in docs], "options": repr(opts)})


def value_cases():
    root = st.one_of(
        st.sampled_from(BOUNDARY_STRINGS).map(lambda s: ("s", s)),
        st.sampled_from([("s", None), ("l", []), ("d", []), ("set", []), ("s", ""), ("s", True), ("s", 0)]),
        gv.text(8).map(lambda s: ("s", s)),
        gv.blueprints(max_leaves=8),
    )
    return st.tuples(st.lists(root, min_size=0, max_size=5), gv.dump_options())


# ------------------------------------------------------------------------------------------------
# level 2: node graphs
#   ("s", tag|None, value, style) | ("q", tag|None, flow, [node..]) | ("m", tag|None, flow, [(node,node)..]) | ("ref", n)
# tag None = the tag the resolver assigns (so that it is elided on output)

NODE_SCALAR_TAGS = [None, None, None, None, "tag:yaml.org,2002:str", "tag:yaml.org,2002:null", "tag:yaml.org,2002:int",
                    "tag:yaml.org,2002:binary", "!local", "tag:example.com,2000:x"]
NODE_SEQ_TAGS = [None, None, None, "tag:yaml.org,2002:seq", "tag:yaml.org,2002:set", "!s", "tag:example.com,2000:s"]
NODE_MAP_TAGS = [None, None, None, "tag:yaml.org,2002:map", "tag:yaml.org,2002:set", "tag:yaml.org,2002:omap", "!m"]


def node_blueprints(max_leaves=8):
    texts = st.one_of(st.sampled_from(BOUNDARY_STRINGS), st.sampled_from(BOUNDARY_STRINGS), gv.text(6),
                      st.sampled_from(["a", "1", "~", "null", "true", "<<", "="]))
    leaf = st.one_of(
        st.tuples(st.just("s"), st.sampled_from(NODE_SCALAR_TAGS), texts, st.sampled_from([None, None, "", '"', "'", "|", ">"])),
        st.tuples(st.just("s"), st.sampled_from(NODE_SCALAR_TAGS), texts, st.sampled_from([None, None, "", '"', "'", "|", ">"])),
        st.integers(0, 20).map(lambda n: ("ref", n)))

    def extend(children):
        return st.one_of(
            st.tuples(st.just("q"), st.sampled_from(NODE_SEQ_TAGS), st.sampled_from([None, True, False]),
                      st.lists(children, max_size=4)),
            st.tuples(st.just("m"), st.sampled_from(NODE_MAP_TAGS), st.sampled_from([None, True, False]),
                      st.lists(st.tuples(children, children), max_size=3)))
    return st.recursive(leaf, extend, max_leaves=max_leaves)


def build_node(bp):
    import yaml
    from yaml import nodes as N
    res = yaml.resolver.Resolver()
    made = []

    def go(b):
        kind = b[0]
        if kind == "ref":
            if not made:
                return N.ScalarNode("tag:yaml.org,2002:str", "noref")
            return made[b[1] % len(made)]
        if kind == "s":
            _, tag, value, style = b
            if tag is None:
                tag = res.resolve(N.ScalarNode, value, (True, False))
            node = N.ScalarNode(tag, value, style=style)
            made.append(node)
            return node
        if kind == "q":
            _, tag, flow, items = b
            node = N.SequenceNode(tag or "tag:yaml.org,2002:seq", [], flow_style=flow)
            made.append(node)
            for c in items:
                node.value.append(go(c))
            return node
        _, tag, flow, items = b
        node = N.MappingNode(tag or "tag:yaml.org,2002:map", [], flow_style=flow)
        made.append(node)
        for k, v in items:
            kn = go(k)
            vn = go(v)
            node.value.append((kn, vn))
        return node
    return go(bp)


def nodes_equal(a, b):
    """Same kind, tag, value, and the same identity partition (shared / recursive nodes)."""
    from yaml import nodes as N
    ab, ba = {}, {}
    stack = [(a, b, "$")]
    while stack:
        x, y, path = stack.pop()
        if id(x) in ab or id(y) in ba:
            if ab.get(id(x)) != id(y) or ba.get(id(y)) != id(x):
                return "%s: sharing differs" % path
            continue
        ab[id(x)] = id(y)
        ba[id(y)] = id(x)
        if type(x) is not type(y):
            return "%s: node kind %s -> %s" % (path, type(x).__name__, type(y).__name__)
        if x.tag != y.tag:
            return "%s: tag %r -> %r" % (path, x.tag, y.tag)
        if isinstance(x, N.ScalarNode):
            if x.value != y.value:
                return "%s: value %r -> %r" % (path, x.value, y.value)
        elif isinstance(x, N.SequenceNode):
            if len(x.value) != len(y.value):
                return "%s: length %d -> %d" % (path, len(x.value), len(y.value))
            for i, (p, q) in enumerate(zip(x.value, y.value)):
                stack.append((p, q, "%s[%d]" % (path, i)))
        else:
            if len(x.value) != len(y.value):
                return "%s: length %d -> %d" % (path, len(x.value), len(y.value))
            for i, ((pk, pv), (qk, qv)) in enumerate(zip(x.value, y.value)):
                stack.append((pk, qk, "%s{%d}key" % (path, i)))
                stack.append((pv, qv, "%s{%d}val" % (path, i)))
    return None


def node_scalars(bp, out):
    if bp[0] == "dup":
        return out
    if bp[0] == "s":
        out.append((bp[2], bp[3]))
    elif bp[0] == "q":
        for c in bp[3]:
            node_scalars(c, out)
    elif bp[0] == "m":
        for k, v in bp[3]:
            node_scalars(k, out)
            node_scalars(v, out)
    return out


def eval_nodes(case):
    import yaml
    bps, opts = case
    n = len(bps)

    def build_docs(items):
        # ("dup", k): the very same node object as an earlier document (a caller may serialize one node graph twice)
        out = []
        for bp in items:
            if bp[0] == "dup":
                out.append(out[bp[1] % len(out)] if out else build_node(("s", None, "first", None)))
            else:
                out.append(build_node(bp))
        return out
    docs = build_docs(bps)
    cl = set()
    cl.add("nodes:n=%d" % n if n < 3 else "nodes:n>=3")
    if any(bp[0] == "dup" for bp in bps[1:]):
        cl.add("node-root:same-node-object-in-two-documents")
    for bp in bps:
        if bp[0] == "s":
            if bp[2] == "":
                cl.add("node-root:empty-scalar")
                if bp[1] is not None:
                    cl.add("node-root:empty-scalar-with-core-tag")
            if bp[2].endswith("\n"):
                cl.add("node-root:trailing-break")
            if bp[2] in BOUNDARY_STRINGS:
                cl.add("node-root:boundary-shape")
        elif bp[0] in "qm" and not bp[3]:
            cl.add("node-root:empty-collection")
    if opts.get("version") or opts.get("tags"):
        cl.add("directives")
    failures = []
    evals = 0
    for dname, D in dumpers(safe=False):
        def produce(k, D=D):
            return decode(yaml.serialize_all(build_docs(bps[:k]), Dumper=D, **opts), opts)
        try:
            text = yaml.serialize_all(docs, Dumper=D, **opts)
        except RecursionError:
            raise
        except Exception as e:
            failures.append(Failure("serialize_all-raised:%s:%s" % (dname, exc_key(e)), exc_msg(e)))
            continue
        evals += 1
        for lname, L in loaders(safe=False):
            evals += 1
            try:
                back = list(yaml.compose_all(deliver(text), Loader=L))
            except RecursionError:
                raise
            except Exception as e:
                failures.append(Failure("compose_all-rejects:%s>%s:%s" % (dname, lname, exc_key(e)),
                                        "%s\ntext=%r" % (exc_msg(e), text[:500])))
                continue
            if len(back) != n:
                failures.append(Failure("node-document-count:%s>%s" % (dname, lname),
                                        "%d documents written, %d read\ntext=%r" % (n, len(back), text[:500])))
                continue
            for i, (a, b) in enumerate(zip(docs, back)):
                diff = nodes_equal(a, b)
                if diff is not None:
                    failures.append(Failure("node-differs:%s>%s:%s" % (dname, lname, diff.split(": ")[1].split(" ")[0]),
                                            "document %d: %s\ntext=%r" % (i, diff, text[:500])))
                    break
        try:
            evals += check_prefixes(produce, n, opts, "nodes-" + dname, failures)
        except RecursionError:
            raise
        except Exception as e:
            failures.append(Failure("serialize_all-prefix-raised:%s:%s" % (dname, exc_key(e)), exc_msg(e)))
    nt = n >= 2 or any(c.startswith("node-root:") for c in cl) or "directives" in cl
    return Eval(failures, sorted(cl), nontrivial=nt, ident=repr(case), evals=evals,
                sample={"nodes": [repr(bp)[:100] for bp in bps], "options": repr(opts)})


def node_cases():
    opts = st.one_of(st.just({}), st.fixed_dictionaries({}, optional={
        "canonical": st.sampled_from([None, True]),
        "indent": st.one_of(st.none(), st.integers(0, 12)),
        "width": st.sampled_from([None, 0, 5, 20, 80, 1000]),
        "allow_unicode": st.sampled_from([None, True, False]),
        "line_break": st.sampled_from([None, "\n", "\r", "\r\n"]),
        "encoding": st.sampled_from([None, "utf-8", "utf-16-le", "utf-16-be"]),
        "explicit_start": st.sampled_from([None, True, False]),
        "explicit_end": st.sampled_from([None, True, False]),
        "version": st.sampled_from([None, (1, 1), (1, 2)]),
        "tags": gv.tag_maps(allow_redefine=True, allow_nonascii=False),
    }))
    doc = st.one_of(node_blueprints(), node_blueprints(), node_blueprints(), st.integers(0, 4).map(lambda k: ("dup", k)))
    return st.tuples(st.lists(doc, min_size=0, max_size=5), opts)


# ------------------------------------------------------------------------------------------------
# level 3: events

def eval_events(case):
    import yaml
    stream, opts = case
    n = len(stream)
    events = ge.build_events(stream)
    cl = set()
    cl.add("events:n=%d" % n if n < 3 else "events:n>=3")
    for d in stream:
        r = d["root"]
        if r[0] == "scalar" and r[4] == "":
            cl.add("event-root:empty-scalar")
        if r[0] == "scalar" and r[4].endswith("\n"):
            cl.add("event-root:trailing-break")
        if r[0] in ("seq", "map") and not r[5]:
            cl.add("event-root:empty-collection")
        if d["version"] or d["tags"]:
            cl.add("directives")
    failures = []
    evals = 0
    for ename, D in dumpers(safe=False):
        def produce(k, D=D):
            return yaml.emit(ge.build_events(stream[:k]), Dumper=D, **opts)
        try:
            text = yaml.emit(ge.build_events(stream), Dumper=D, **opts)
        except RecursionError:
            raise
        except Exception as e:
            failures.append(Failure("emit-raised:%s:%s" % (ename, exc_key(e)), exc_msg(e)))
            continue
        evals += 1
        for pname, L in loaders(safe=False):
            evals += 1
            try:
                back = list(yaml.parse(deliver(text), Loader=L))
            except RecursionError:
                raise
            except Exception as e:
                failures.append(Failure("parse-rejects-emitted:%s>%s:%s" % (ename, pname, exc_key(e)),
                                        "%s\ntext=%r" % (exc_msg(e), text[:500])))
                continue
            from yaml.events import DocumentStartEvent
            nd = sum(1 for e in back if isinstance(e, DocumentStartEvent))
            if nd != n:
                failures.append(Failure("event-document-count:%s>%s" % (ename, pname),
                                        "%d documents emitted, %d parsed\ntext=%r" % (n, nd, text[:500])))
                continue
            diff = ge.events_equivalent(events, back)
            if diff is not None:
                failures.append(Failure("events-differ:%s>%s:%s" % (ename, pname, diff[0]),
                                        "%s\ntext=%r" % (diff[1], text[:500])))
        # the per-document explicit_end flags differ per document: prefix rule uses "all requested explicit"
        try:
            evals += check_prefixes(produce, n, {"explicit_end": all(d["explicit_end"] for d in stream)},
                                    "events-" + ename, failures)
        except RecursionError:
            raise
        except Exception as e:
            failures.append(Failure("emit-prefix-raised:%s:%s" % (ename, exc_key(e)), exc_msg(e)))
    nt = n >= 2 or any(c.startswith("event-root:") for c in cl) or "directives" in cl
    return Eval(failures, sorted(cl), nontrivial=nt, ident=repr(case), evals=evals,
                sample={"events": [ge.ev_repr(e) for e in events[:10]], "options": repr(opts)})


def event_cases():
    texts = st.one_of(st.sampled_from(BOUNDARY_STRINGS), gv.text(6), st.sampled_from(["a", "1", "~"]))
    # weight roots towards scalars/empty collections
    def doc_with_boundary_root(t):
        d, root = t
        d = dict(d)
        d["root"] = root
        return d
    broot = st.one_of(ge.scalar_nodes(st.sampled_from(BOUNDARY_STRINGS)),
                      st.sampled_from([("seq", False, None, True, None, []), ("map", False, None, True, None, []),
                                       ("seq", True, None, True, True, []), ("map", False, "!local", False, False, [])]))
    docs = st.one_of(ge.documents(6, texts), st.tuples(ge.documents(2, texts), broot).map(doc_with_boundary_root))
    return st.tuples(st.lists(docs, min_size=0, max_size=5), ge.emit_options())


# ------------------------------------------------------------------------------------------------
# node graphs obtained by composing coverage-guided texts (vlib/greybox.py): compose_all -> serialize_all -> compose_all

COMPOSED_OPTS = [{}, {"explicit_start": True}, {"explicit_end": True}, {"canonical": True}, {"version": (1, 1)}, {"width": 10, "indent": 4},
                 {"allow_unicode": True}, {"line_break": "\r\n"}, {"explicit_start": True, "explicit_end": True, "version": (1, 2)}, {"encoding": "utf-16-le"}]


def _composed(text):
    import yaml
    try:
        return list(yaml.compose_all(text, Loader=yaml.Loader))
    except (yaml.YAMLError, RecursionError):
        return None


def _walk_nodes(docs):
    seen, out = set(), []
    stack = list(docs)
    while stack:
        n = stack.pop()
        if n is None or id(n) in seen:
            continue
        seen.add(id(n))
        out.append(n)
        if n.id == "sequence":
            stack.extend(n.value)
        elif n.id == "mapping":
            for k, v in n.value:
                stack.extend((k, v))
    return out


def eval_composed(case):
    import yaml
    text, oi = case
    opts = COMPOSED_OPTS[oi % len(COMPOSED_OPTS)]
    docs = _composed(text)
    if not docs or any(d is None for d in docs):
        return Eval([], ["composed", "composed:text-rejected-or-empty"], nontrivial=False, ident=repr(case), evals=1)
    n = len(docs)
    cl = {"composed", "composed:n=%d" % min(n, 3)}
    if opts.get("version") or opts.get("tags"):
        cl.add("composed:directives")
    failures = []
    evals = 1
    for dname, D in dumpers(safe=False):
        fresh = _composed(text)
        try:
            out = yaml.serialize_all(fresh, Dumper=D, **opts)
        except RecursionError:
            raise
        except Exception as e:
            failures.append(Failure("serialize_all-raised:%s:%s" % (dname, exc_key(e)), exc_msg(e)))
            continue
        evals += 1
        for lname, L in loaders(safe=False):
            evals += 1
            try:
                back = list(yaml.compose_all(deliver(out), Loader=L))
            except RecursionError:
                raise
            except Exception as e:
                failures.append(Failure("compose_all-rejects:%s>%s:%s" % (dname, lname, exc_key(e)), "%s\ntext=%r" % (exc_msg(e), out[:500])))
                continue
            if len(back) != n:
                failures.append(Failure("node-document-count:%s>%s" % (dname, lname), "%d documents written, %d read\ntext=%r" % (n, len(back), out[:500])))
                continue
            for i, (a, b) in enumerate(zip(docs, back)):
                diff = nodes_equal(a, b)
                if diff is not None:
                    failures.append(Failure("node-differs:%s>%s:%s" % (dname, lname, diff.split(": ")[1].split(" ")[0]),
                                            "document %d: %s\ntext=%r" % (i, diff, out[:500])))
                    break
    return Eval(failures, sorted(cl), nontrivial=n >= 2 or len(_walk_nodes(docs)) > 2, ident=repr(case), evals=evals,
                sample={"text": text[:300], "options": repr(opts)})


def composed_campaign(shard, nshards, tier):
    from vlib import greybox
    from vlib.runner import h64
    return greybox.campaign(shard, nshards, tier, PROPERTY, "composed", quick=8000, thorough=500000,
                            wrap=lambda t: (t, h64(t) % len(COMPOSED_OPTS)), valid_only=True)


def arms(tier):
    return [
        Arm("values", eval_values, value_cases, quick=6000, thorough=250000),
        Arm("nodes", eval_nodes, node_cases, quick=6000, thorough=250000),
        Arm("events", eval_events, event_cases, quick=6000, thorough=250000),
        Arm("composed", eval_composed, enum=composed_campaign),
    ]


REQUIRED_CLASSES = ["root:empty-string", "root:trailing-break(keep-chomp)", "node-root:empty-scalar-with-core-tag",
                    "node-root:empty-collection", "event-root:empty-scalar", "directives", "node-root:same-node-object-in-two-documents"]


def deliver(text):
    """The written stream is read back as it is, or (two times in three, a pure function of the text) through a file-like object
    whose read() returns fewer items than asked for - pipes, sockets and message-style wrappers do; documents then straddle reads."""
    from checks.c07 import ChunkedText
    from vlib.runner import h64
    hv = h64(text)
    if hv % 3 == 0:
        return text
    piece = [1, 5, 64, 1000][(hv // 3) % 4]
    return ChunkedText(text, [piece] if hv % 3 == 1 else [piece, 4096, 7])


# ------------------------------------------------------------------------------------------------
# known findings (LibYAML emitter, system library)

def _first_root_is_empty_implicit_plain(arm, case):
    if arm == "values":
        bps, opts = case
        if not bps or opts.get("explicit_start") or opts.get("version") or opts.get("tags") or opts.get("canonical"):
            return False
        v = gv.build(bps[0])[0]
        # None is written as an explicit 'null', '' as quoted: only the events/nodes levels can produce an empty plain root
        return False
    if arm == "nodes":
        bps, opts = case
        if not bps or opts.get("explicit_start") or opts.get("version") or opts.get("tags") or opts.get("canonical"):
            return False
        b = bps[0]
        return b[0] == "s" and b[2] == "" and not b[3] and b[1] in (None, "tag:yaml.org,2002:null")
    stream, opts = case
    if not stream or opts.get("canonical"):
        return False
    d = stream[0]
    r = d["root"]
    return (not d["explicit_start"] and not d["version"] and not d["tags"] and r[0] == "scalar" and not r[1]
            and r[4] == "" and r[3][0] and not r[5])


def _c_fold_class(arm, case):
    if arm == "values":
        bps, opts = case
        if opts.get("default_style") != ">":
            return False
        return any(has_foldable_more_indented_line(s) for bp in bps for s in strings_in(gv.build(bp)[0]))
    if arm == "nodes":
        bps, _ = case
        return any(style == ">" and has_foldable_more_indented_line(t) for bp in bps for t, style in node_scalars(bp, []))
    stream, _ = case
    from checks.c05 import _scalar_styles
    return any(style == ">" and has_foldable_more_indented_line(t) for t, style in _scalar_styles(stream))


def known_class(arm, case, key):
    parts = key.split(":")
    c_emitter = len(parts) > 1 and (parts[1].startswith(("c>", "c-path>")) or parts[1] in ("c", "c-path", "nodes-c", "events-c"))
    if not c_emitter:
        return None
    if arm == "composed":
        text, oi = case
        opts = COMPOSED_OPTS[oi % len(COMPOSED_OPTS)]
        docs = _composed(text) or []
        T = "tag:yaml.org,2002:"
        r = docs[0] if docs else None
        if (r is not None and r.id == "scalar" and r.value == "" and not r.style and r.tag in (T + "null", T + "str")
                and not (opts.get("explicit_start") or opts.get("version") or opts.get("tags") or opts.get("canonical"))
                and ("count" in parts[0] or "rejects" in parts[0] or parts[0] == "node-differs")):
            return "libyaml-drops-empty-implicit-first-document"
        allnodes = _walk_nodes(docs)
        if any(n.id == "scalar" and n.style == ">" and has_foldable_more_indented_line(n.value) for n in allnodes):
            return "libyaml-folds-inside-more-indented-line"
        if parts[1].endswith(">c") and any(n.tag and ((n.tag.startswith("!") and any(c in n.tag[1:] for c in ",[]")) or
                                                      (n.tag.startswith(T) and any(c in n.tag[len(T):] for c in ",[]"))) for n in allnodes):
            return "libyaml-emitter-writes-flow-indicator-in-shorthand-tag"
        return None
    if _first_root_is_empty_implicit_plain(arm, case) and (
            "count" in parts[0] or "rejects" in parts[0] or key.endswith(":structure") or parts[0].startswith("text-depends")):
        return "libyaml-drops-empty-implicit-first-document"
    if _c_fold_class(arm, case) and (parts[0] in ("document-differs", "node-differs", "events-differ", "load_all-rejects",
                                                  "compose_all-rejects", "parse-rejects-emitted")):
        return "libyaml-folds-inside-more-indented-line"
    if arm not in ("values", "nodes") and parts[1].endswith(">c") and isinstance(case[0], list) and shorthand_with_flow_indicator(ge.build_events(case[0])):
        return "libyaml-emitter-writes-flow-indicator-in-shorthand-tag"
    return None


def pinned_known(key, rec):
    from checks import c05
    return c05.pinned_known(key, rec)
