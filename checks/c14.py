"""C14 - mappings, merge keys, sets and ordered maps are built by their YAML 1.1 rules."""
from hypothesis import strategies as st

from vlib import ref_construct
from vlib.compare import scalar_equal
from vlib.runner import Arm, Eval, Failure
from vlib.util import exc_key, exc_msg, have_c

PROPERTY = "C14"
T = "tag:yaml.org,2002:"
LEVEL = "exploration"
RULE = ("Hypothesis-generated documents built from mappings with colliding keys (a, b, c, 1, 1.0, 0x1, true, '1', ~, null), "
        "one or several merge keys whose values are a mapping, an alias to an anchored mapping, a list of mappings/aliases, "
        "an alias to an anchored *list* of mappings, nested merges, the same anchored source merged several times and also "
        "used as an ordinary value, quoted '<<' keys, ill-shaped merge values (scalar, list containing a scalar or a list), "
        "!!set with and without values and merges, !!omap / !!pairs of every shape, unhashable keys (list, dict, set, omap). "
        "Oracle: vlib/ref_construct.py, a non-mutating evaluator of the composed node graph that implements the rule "
        "literally (own keys last-wins in document order; per merge key the entries of its sources not defined by the "
        "mapping itself, earlier list item over later, later merge key over earlier, recursively); loaders must return "
        "exactly its value (values type-strict, keys by dict equality, key order only for mappings without a merge key) "
        "or raise ConstructorError exactly when it reports an ill-shaped construct; SafeLoader and CSafeLoader; loading "
        "twice gives the same answer. Non-trivial = a merge with >= 2 sources or a shared source, a duplicate key, or an "
        "ill-shaped node; distinct = hash of text.")
ASSUMPTIONS = [
    "the composed node graph is taken from yaml.compose (the composer and resolver are the subject of C06/C08/C09/C13)",
    "keys that are equal as Python dict keys but differ in type (1, 1.0, true) are compared by dict equality, as the property's "
    "'equal keys' reads; values are compared type-strictly",
    "recursive merges (a mapping merging itself) are not generated; duplicate keys inside !!omap are accepted by the library and the reference alike",
]

KEYS = [("a", False), ("b", False), ("c", False), ("a", False), ("b", False), ("1", False), ("1.0", False), ("0x1", False),
        ("true", False), ("1", True), ("~", False), ("null", False), ("x y", False), ("2001-01-01", False), ("d", False),
        ("<<", True), ("0o1", False), ("01", False), ("60", False), ("yes", False), ("True", False), ("!!str k", False), ("!!int 1", False),
        ("=", False), ("=", True)]       # the YAML 1.1 'value' key: an ordinary key '=' for mappings
# scalar nodes whose tag makes them build an unhashable value (or fail): ill-shaped keys, drawn rarely
ILL_KEYS = [("!!seq x", False), ("!!map x", False), ("!!set x", False), ("!!omap x", False)]
VALUES = [("1", False), ("2", False), ("x", False), ("y", False), ("z", False), ("", True), ("~", False), ("true", False),
          ("3.5", False), ("own", False), ("merged", False), ("first", False), ("second", False), ("2001-01-01", False)]


class R:
    def __init__(self):
        self.done = []      # completed anchors: (name, kind)
        self.count = 0
        self.cl = set()

    def anchor(self, flag):
        if not flag:
            return "", None
        self.count += 1
        return "&n%d " % self.count, "n%d" % self.count

    def scalar(self, text, quoted):
        if quoted or text == "":
            return "'%s'" % text
        return text

    def node(self, n, want=None):
        k = n[0]
        if k == "s":
            return self.scalar(n[1], n[2])
        if k == "a":
            pool = [a for a in self.done if want is None or a[1] == want] or self.done
            if not pool:
                return "noalias"
            name, kind = pool[n[1] % len(pool)]
            self.cl.add("alias-to:%s" % kind)
            return "*" + name
        if k == "q":
            _, anc, items = n
            a, name = self.anchor(anc)
            body = "[" + ", ".join(self.node(c) for c in items) + "]"
            if name:
                self.done.append((name, "seq"))
            return a + body
        if k == "ml":        # an anchored list of mappings, to be used as a merge value through an alias
            _, items = n
            a, name = self.anchor(True)
            body = "[" + ", ".join(self.node(c, want="map") for c in items) + "]"
            self.done.append((name, "maplist"))
            return a + body
        if k == "m":
            _, anc, tagkind, pairs = n
            a, name = self.anchor(anc)
            tag = {"set": "!!set ", "map": "!!map ", None: ""}[tagkind]
            parts = []
            nmerge = 0
            seen_keys = set()
            for p in pairs:
                if p[0] == "kv":
                    kn = p[1]
                    if kn[0] == "s":
                        if kn[1:] in seen_keys:
                            self.cl.add("dup-key")
                        seen_keys.add(kn[1:])
                        parts.append("%s: %s" % (self.scalar(kn[1], kn[2]), self.node(p[2])))
                    else:
                        self.cl.add("complex-key")
                        parts.append("? %s : %s" % (self.node(kn), self.node(p[2])))
                elif p[0] == "mg":
                    nmerge += 1
                    mv = p[1]
                    if mv[0] == "q":
                        self.cl.add("merge:list")
                        if len(mv[2]) >= 2:
                            self.cl.add("merge:list>=2")
                        parts.append("<<: [%s]" % ", ".join(self.node(c, want="map") for c in mv[2]))
                    elif mv[0] == "a":
                        parts.append("<<: %s" % self.node(mv, want=["map", "map", "maplist"][mv[1] % 3]))
                        self.cl.add("merge:alias")
                    else:
                        if mv[0] == "s":
                            self.cl.add("merge:ill-shaped-scalar")
                        parts.append("<<: %s" % self.node(mv))
                elif p[0] == "qmg":
                    self.cl.add("quoted-merge-key")
                    parts.append("%s: %s" % (["'<<'", '"<<"', "!!str <<"][p[2] % 3], self.node(p[1])))
            if nmerge:
                self.cl.add("merge")
            if nmerge >= 2:
                self.cl.add("merge:several-keys")
            if tagkind == "set":
                self.cl.add("set")
            body = tag + "{" + ", ".join(parts) + "}"
            if name:
                self.done.append((name, "map"))
            return a + body
        if k == "o":
            _, kind, anc, entries = n
            a, name = self.anchor(anc)
            self.cl.add(kind)
            body = "!!%s [%s]" % (kind, ", ".join(self.node(e) for e in entries))
            if name:
                self.done.append((name, kind))
            return a + body
        raise AssertionError(n)


def render(doc):
    r = R()
    text = r.node(doc) + "\n"
    return text, r.cl


def dict_equal(ref, got, ordered_ids, path="$"):
    """None when equal under the C14 comparison, else a message."""
    if isinstance(ref, dict):
        if type(got) is not dict:
            return "%s: expected dict, got %s" % (path, type(got).__name__)
        if len(ref) != len(got):
            return "%s: %d keys expected, %d loaded: %.80r vs %.80r" % (path, len(ref), len(got), list(ref), list(got))
        lenient = next((x[1] for x in ordered_ids if isinstance(x, tuple) and x[0] == "lenient"), frozenset())
        for k in ref:
            if k not in got:
                return "%s: key %r missing from %.80r" % (path, k, list(got))
            if id(ref) not in lenient:
                gk = next(x for x in got if x == k)
                if type(gk) is not type(k):
                    return "%s: key-type: key %r (%s) expected, the loaded mapping has %r (%s)" % (path, k, type(k).__name__, gk, type(gk).__name__)
            d = dict_equal(ref[k], got[k], ordered_ids, "%s[%r]" % (path, k))
            if d:
                return d
        if id(ref) in ordered_ids and list(ref) != list(got):
            return "%s: key-order: expected document order %.80r, loaded %.80r" % (path, list(ref), list(got))
        return None
    if isinstance(ref, list):
        if type(got) is not list or len(ref) != len(got):
            return "%s: list differs: %.80r vs %.80r" % (path, ref, got)
        for i, (a, b) in enumerate(zip(ref, got)):
            d = dict_equal(a, b, ordered_ids, "%s[%d]" % (path, i))
            if d:
                return d
        return None
    if isinstance(ref, tuple):
        if type(got) is not tuple or len(ref) != len(got):
            return "%s: pair differs: %.80r vs %.80r" % (path, ref, got)
        for i, (a, b) in enumerate(zip(ref, got)):
            d = dict_equal(a, b, ordered_ids, "%s(%d)" % (path, i))
            if d:
                return d
        return None
    if isinstance(ref, set):
        if type(got) is not set or ref != got:
            return "%s: set differs: %.80r vs %.80r" % (path, ref, got)
        return None
    if not scalar_equal(ref, got):
        return "%s: value %r (%s) expected, %r (%s) loaded" % (path, ref, type(ref).__name__, got, type(got).__name__)
    return None


def loaders():
    import yaml
    out = [("py", yaml.SafeLoader)]
    if have_c():
        out.append(("c", yaml.CSafeLoader))
    return out


def base_loaders_first(text, cl):
    """A quarter of the texts are read by the loaders that resolve nothing before anything else touches them (an application may
    use both families in one process): what the safe loaders compose and construct afterwards is judged by the same reference."""
    import yaml
    from vlib.runner import h64
    if h64(text) % 4:
        return
    cl.add("read-by-base-loaders-first")
    for BL in [yaml.BaseLoader] + ([yaml.CBaseLoader] if have_c() else []):
        try:
            yaml.load(text, Loader=BL)
        except (yaml.YAMLError, RecursionError):
            pass


def eval_doc(case):
    import yaml
    text, cl = render(case)
    cl = set(cl)
    failures = []
    evals = 0
    base_loaders_first(text, cl)
    try:
        node = yaml.compose(text)
        # the loaders read the document behind a directive line in half of the cases (a pure function of the text): the
        # construction rules are the YAML 1.1 ones whatever the %YAML directive says
        from vlib.runner import h64
        header = ["", "", "%YAML 1.1\n--- ", "%YAML 1.2\n--- ", "", "--- ", "%TAG !e! tag:example.com,2000:\n--- ", "%YAML 1.2\n%TAG ! !local-\n--- "][h64(text) % 8]
        if header:
            cl.add("directive:%s" % header.split()[0])
            if "1.2" in header:
                cl.add("directive:%YAML-1.2")
        text = header + text
    except yaml.YAMLError as e:
        # the renderer only writes valid flow YAML.  When the LibYAML composer accepts the text, the rejection is what the
        # pure-Python reader does to a well-formed document; otherwise it is a generator defect, not a finding
        if have_c():
            try:
                yaml.compose(text, Loader=yaml.CSafeLoader)
            except yaml.YAMLError:
                raise AssertionError("generated document does not compose: %r: %s" % (text, e))
            return Eval([Failure("well-formed-document-rejected-by-reader:py:%s" % exc_key(e), "%s\ntext=%r" % (exc_msg(e), text[:400]))],
                        sorted(cl), nontrivial=True, ident=text, evals=2)
        raise AssertionError("generated document does not compose: %r: %s" % (text, e))
    return check_text(text, node, cl)


def check_text(text, node, cl, legs=None):
    import yaml
    failures = []
    evals = 0
    try:
        ref, ordered = ref_construct.evaluate(node)
        ref_err = None
    except ref_construct.NoClaim as e:
        return Eval([], sorted(cl | {"no-claim:%s" % str(e)[:40]}), nontrivial=False, ident=text, evals=1)
    except ref_construct.RefError as e:
        ref, ordered, ref_err = None, set(), str(e)
        cl.add("ill-shaped:%s" % str(e).split(" (")[0][:40])
    if text.count("<<") > 50:
        cl.add("merge:more-than-50-in-one-document")
    if ref_err is None:
        cl.add("well-shaped")
        if "merge" in cl:
            cl.add("well-shaped:with-merge")
        if "merge:list>=2" in cl:
            cl.add("well-shaped:with-merge-list>=2")
    # the reference constructor reads the merge / value keys off the tags of the composed nodes; that the composer gives a plain '<<'
    # ('=') the merge (value) tag - and nothing else - is checked here against the event stream, for every loader leg, after the
    # base-loader pass above
    for lname, L in (legs if legs is not None else loaders()):
        evals += 1
        try:
            events = list(yaml.parse(text, Loader=L))
            want = {}
            for e in events:
                if isinstance(e, yaml.ScalarEvent) and e.value in ("<<", "="):
                    # (the event's own flag says whether the composer is to resolve the text: set for an untagged plain scalar and,
                    # in this library, for a plain or quoted scalar that carries the non-specific tag '!')
                    plain = e.tag in (None, "!") and e.implicit[0]
                    t_ = T + {"<<": "merge", "=": "value"}[e.value] if plain else (e.tag if e.tag not in (None, "!") else T + "str")
                    want[(e.value, t_)] = want.get((e.value, t_), 0) + 1
            have = {}
            seen_ = set()
            stack_ = [yaml.compose(text, Loader=L)]
            while stack_:
                n_ = stack_.pop()
                if n_ is None or id(n_) in seen_:
                    continue
                seen_.add(id(n_))
                if n_.id == "scalar":
                    if n_.value in ("<<", "="):
                        have[(n_.value, n_.tag)] = have.get((n_.value, n_.tag), 0) + 1
                elif n_.id == "sequence":
                    stack_.extend(n_.value)
                else:
                    for k_, v_ in n_.value:
                        stack_.append(k_)
                        stack_.append(v_)
            if have != want:
                failures.append(Failure("merge-or-value-key-tagged-differently-than-written:%s" % lname,
                                        "composed nodes %r, written %r\ntext=%r" % (sorted(have.items()), sorted(want.items()), text[:400])))
        except (yaml.YAMLError, RecursionError):
            pass
    for lname, L in (legs if legs is not None else loaders()):
        for attempt in (1, 2):
            evals += 1
            try:
                got = yaml.load(text, Loader=L)
                exc = None
            except RecursionError:
                raise
            except Exception as e:
                exc = e
            if exc is not None and not isinstance(exc, yaml.YAMLError):
                failures.append(Failure("non-yaml-error:%s:%s" % (lname, exc_key(exc)), "%s\ntext=%r" % (exc_msg(exc), text[:400])))
                break
            if ref_err is not None:
                if exc is None:
                    failures.append(Failure("ill-shaped-accepted:%s:%s" % (lname, ref_err.split(" (")[0][:40]),
                                            "reference: %s; loaded %.120r\ntext=%r" % (ref_err, got, text[:400])))
                elif not isinstance(exc, yaml.constructor.ConstructorError):
                    failures.append(Failure("ill-shaped-wrong-error-class:%s:%s" % (lname, type(exc).__name__),
                                            "%s\ntext=%r" % (exc_msg(exc), text[:400])))
                break
            if exc is not None:
                failures.append(Failure("well-shaped-rejected:%s:%s" % (lname, exc_key(exc)),
                                        "%s\nreference value %.120r\ntext=%r" % (exc_msg(exc), ref, text[:400])))
                break
            d = dict_equal(ref, got, ordered)
            if d:
                kind = "key-order" if "key-order" in d else "value"
                failures.append(Failure("differs-from-rule:%s:%s%s" % (lname, kind, ":second-load" if attempt == 2 else ""),
                                        "%s\nreference %.200r\nloaded    %.200r\ntext=%r" % (d, ref, got, text[:400])))
                break
    nt = bool(cl & {"merge:list>=2", "merge:alias", "merge:several-keys"}) or any(c.startswith("ill-shaped") for c in cl) or "dup-key" in cl
    return Eval(failures, sorted(cl), nontrivial=nt, ident=text, evals=evals, sample={"text": text[:300], "reference": repr(ref)[:200] if ref_err is None else "error: " + ref_err})


def docs():
    key = st.sampled_from(KEYS * 10 + ILL_KEYS).map(lambda t: ("s", t[0], t[1]))
    val = st.sampled_from(VALUES).map(lambda t: ("s", t[0], t[1]))
    alias = st.integers(0, 30).map(lambda n: ("a", n))
    leaf = st.one_of(val, val, val, alias)
    anc = st.sampled_from([False, True, True])

    def extend(ch):
        simple_map = st.tuples(st.just("m"), st.just(True), st.none(),
                               st.lists(st.tuples(st.just("kv"), key, val), min_size=1, max_size=3))
        good_list = st.tuples(st.just("q"), st.just(False), st.lists(st.one_of(alias, alias, simple_map), max_size=3))
        mergeval = st.one_of(alias, alias, alias, alias, simple_map, simple_map, good_list, good_list, good_list,
                             st.tuples(st.just("q"), st.just(False), st.lists(st.one_of(alias, simple_map, ch), max_size=3)),
                             ch, val)
        pair = st.one_of(
            st.tuples(st.just("kv"), key, ch), st.tuples(st.just("kv"), key, ch), st.tuples(st.just("kv"), key, val),
            st.tuples(st.just("kv"), st.one_of(key, key, key, ch), ch),
            st.tuples(st.just("mg"), mergeval), st.tuples(st.just("mg"), mergeval),
            st.tuples(st.just("qmg"), val, st.integers(0, 2)))
        mp = st.tuples(st.just("m"), anc, st.sampled_from([None, None, None, None, "set", "map"]), st.lists(pair, max_size=5))
        good_entry = st.tuples(st.just("m"), st.just(False), st.none(), st.lists(st.tuples(st.just("kv"), key, ch), min_size=1, max_size=1))
        entry = st.one_of(good_entry, good_entry, good_entry, good_entry, good_entry,st.tuples(st.just("m"), st.just(False), st.none(), st.lists(st.tuples(st.just("kv"), key, ch), min_size=1, max_size=1)),
                          st.tuples(st.just("m"), st.just(False), st.none(), st.lists(st.tuples(st.just("kv"), key, ch), min_size=1, max_size=1)),
                          st.tuples(st.just("m"), st.just(False), st.none(), st.lists(st.tuples(st.just("kv"), key, val), max_size=2)),
                          ch)
        return st.one_of(
            mp, mp, mp,
            st.tuples(st.just("q"), anc, st.lists(ch, max_size=4)),
            st.tuples(st.just("ml"), st.lists(st.one_of(alias, simple_map), min_size=1, max_size=3)),
            st.tuples(st.just("o"), st.sampled_from(["omap", "pairs"]), anc, st.lists(entry, max_size=3)))
    body = st.recursive(leaf, extend, max_leaves=14)
    # a well-shaped family by construction: anchored sources with overlapping keys, an anchored list of them, and users that
    # merge a source, an inline list, or the shared list - several times
    src = st.tuples(st.just("m"), st.just(True), st.none(), st.lists(st.tuples(st.just("kv"), key, val), min_size=1, max_size=3))
    alias_ = st.integers(0, 30).map(lambda n: ("a", n))
    user_pair = st.one_of(st.tuples(st.just("kv"), key, val), st.tuples(st.just("kv"), key, val),
                          st.tuples(st.just("mg"), alias_),
                          st.tuples(st.just("mg"), st.tuples(st.just("q"), st.just(False), st.lists(st.one_of(alias_, alias_, src), min_size=2, max_size=3))))
    user = st.tuples(st.just("m"), st.sampled_from([False, True]), st.sampled_from([None, None, "set"]), st.lists(user_pair, min_size=1, max_size=4))
    family = st.tuples(st.lists(src, min_size=2, max_size=3), st.tuples(st.just("ml"), st.lists(alias_, min_size=2, max_size=3)),
                       st.lists(user, min_size=1, max_size=4)).map(lambda t: ("q", False, t[0] + [t[1]] + t[2]))
    # the same family with many users (a shared merge source is reused tens or hundreds of times in one document)
    wide = st.tuples(st.lists(src, min_size=2, max_size=3), st.tuples(st.just("ml"), st.lists(alias_, min_size=2, max_size=3)),
                     st.lists(user, min_size=1, max_size=3), st.sampled_from([30, 52, 70, 130])).map(
        lambda t: ("q", False, t[0] + [t[1]] + t[2] * t[3]))
    # a root sequence: definitions first, uses later, so that aliases find completed anchors
    bodies = st.lists(body, min_size=1, max_size=6).map(lambda items: ("q", False, items))
    # (st.one_of deduplicates identical branches, so the weights are drawn explicitly)
    return st.sampled_from([0] * 40 + [1] * 20 + [2]).flatmap(lambda i: (bodies, family, wide)[i])


def eval_wrap(case):
    ev = eval_doc(case)
    return ev



def eval_text(text):
    """A coverage-guided text (vlib/greybox.py): the first document the pure-Python composer builds is evaluated by the reference
    rules and loaded by both safe loaders."""
    import yaml
    pre = set()
    base_loaders_first(text, pre)
    try:
        node = yaml.compose(text, Loader=yaml.SafeLoader)
    except (yaml.YAMLError, RecursionError):
        return Eval([], ["text", "text:not-one-document"], nontrivial=False, ident=text, evals=1)
    if node is None:
        return Eval([], ["text", "text:empty"], nontrivial=False, ident=text, evals=1)
    if _has_cycle(node):
        # self-referential documents are C13's subject; the reference evaluator is written for acyclic graphs
        return Eval([], ["text", "text:self-referential"], nontrivial=False, ident=text, evals=1)
    # the LibYAML leg takes part when its composer builds the same node graph (texts outside the portable subset are C06's subject)
    legs = [("py", yaml.SafeLoader)]
    cl = {"text"} | pre
    if have_c():
        from vlib.c11_pool import summarize
        try:
            if summarize(yaml.compose(text, Loader=yaml.CSafeLoader)) == summarize(node):
                legs.append(("c", yaml.CSafeLoader))
                cl.add("text:both-back-ends")
        except (yaml.YAMLError, UnicodeDecodeError):
            pass
    ev = check_text(text, node, cl, legs)
    # What C14 does not claim, and the generated documents of the 'docs' arm never contain, but mutated texts reach (soak, seed 11):
    # (a) how a scalar text is converted under a core tag ('!!int' with a full-width digit, a '!'-tagged folded scalar whose text
    #     ends in a break and matches the timestamp pattern) is C08's subject - the reference is stricter than the converters there;
    # (b) a NaN key cannot be looked up again even in plain Python, so key agreement is undefined for it (DESIGN 2.6).
    kept = []
    extra = set()
    nan_key = False
    stack_, seen_ = [node], set()
    while stack_:
        n_ = stack_.pop()
        if id(n_) in seen_:
            continue
        seen_.add(id(n_))
        if n_.id == "mapping":
            for k_, v_ in n_.value:
                if k_.id == "scalar" and k_.tag == T + "float" and k_.value.lower().lstrip("+-") == ".nan":
                    nan_key = True
                stack_.append(k_)
                stack_.append(v_)
        elif n_.id == "sequence":
            stack_.extend(n_.value)
    for f in ev.failures:
        if nan_key and f.key.startswith("differs-from-rule:"):
            extra.add("text:not-judged:nan-key")
            continue
        if f.key.startswith("ill-shaped-accepted:") and "malformed tag:yaml.org,2002:" in f.key:
            extra.add("text:not-judged:scalar-conversion-under-a-core-tag")
        elif "key nan missing" in f.msg:
            extra.add("text:not-judged:nan-key")
        else:
            kept.append(f)
    ev.failures = kept
    ev.classes = list(ev.classes) + sorted(extra)
    # (the reference names the offending tag: free text here, so the class is cut after 'with tag')
    ev.classes = sorted({c.split(" with tag ")[0] + (" with tag ..." if " with tag " in c else "") for c in ev.classes})
    return ev


def _has_cycle(root):
    state = {}
    stack = [(root, iter(_kids(root)))]
    state[id(root)] = 1
    while stack:
        n, it = stack[-1]
        for c in it:
            st_ = state.get(id(c))
            if st_ == 1:
                return True
            if st_ is None:
                state[id(c)] = 1
                stack.append((c, iter(_kids(c))))
                break
        else:
            state[id(n)] = 2
            stack.pop()
    return False


def _kids(n):
    if n.id == "sequence":
        return list(n.value)
    if n.id == "mapping":
        return [x for kv in n.value for x in kv]
    return []


def text_campaign(shard, nshards, tier):
    from vlib import greybox
    return greybox.campaign(shard, nshards, tier, PROPERTY, "texts", quick=12000, thorough=600000, valid_only=True)


def arms(tier):
    return [Arm("docs", eval_wrap, docs, quick=20000, thorough=400000),
            Arm("texts", eval_text, enum=text_campaign)]


MIN_CLASS_COUNTS = {"merge:more-than-50-in-one-document": 60, "well-shaped:with-merge": 600, "well-shaped:with-merge-list>=2": 200, "ill-shaped:unhashable key": 100}
REQUIRED_CLASSES = ["read-by-base-loaders-first", "directive:%YAML-1.2", "merge", "merge:list>=2", "merge:alias", "merge:several-keys", "alias-to:map", "alias-to:maplist", "set",
                    "omap", "pairs", "quoted-merge-key", "complex-key", "well-shaped:with-merge", "well-shaped:with-merge-list>=2", "dup-key"]


def _has_alias_entry_in_omap(bp):
    """An !!omap / !!pairs entry that is an alias (the shared node may have been flattened in place by an earlier use)."""
    if not isinstance(bp, tuple):
        return False
    k = bp[0]
    if k == "o":
        if any(e[0] == "a" for e in bp[3]):
            return True
        return any(_has_alias_entry_in_omap(e) for e in bp[3])
    if k in ("q", "ml"):
        return any(_has_alias_entry_in_omap(c) for c in bp[-1])
    if k == "m":
        for pr in bp[3]:
            if any(_has_alias_entry_in_omap(x) for x in pr[1:] if isinstance(x, tuple)):
                return True
    return False


def known_class(arm, case, key):
    if key.startswith("ill-shaped-accepted:") and ("exactly o" in key or "merge key inside" in key) and _has_alias_entry_in_omap(case):
        return "omap-entry-shape-depends-on-earlier-flattening"
    return None


def pinned_known(key, rec):
    import yaml
    if key == "omap-entry-shape-depends-on-earlier-flattening":
        a = "[&n1 {a: 1, <<: []}, !!omap [*n1]]"        # the mapping is flattened (in place) before the omap looks at it
        b = "[!!omap [&n1 {a: 1, <<: []}], *n1]"        # the omap looks at it first
        try:
            yaml.safe_load(a)
            first = "accepted"
        except yaml.YAMLError:
            first = "rejected"
        try:
            yaml.safe_load(b)
            second = "accepted"
        except yaml.YAMLError:
            second = "rejected"
        return first != second
    return True
