"""C04 - full loading never imports, calls or instantiates what a document names."""
import datetime
import os
import sys

from hypothesis import strategies as st

from vlib import safety
from vlib.runner import Arm, Eval, Failure
from vlib.util import exc_key, exc_msg, have_c
from checks import c01

PROPERTY = "C04"
LEVEL = "exploration"
RULE = ("Hypothesis-generated abstract documents (same generator and canary catalogue as C01) with every python/* tag form "
        "(name, module, object, object/new, object/apply, the 12 value tags; shorthand / verbatim / %TAG handle / redefined "
        "'!!') x names of attributes of imported modules, of unimported modules and packages that exist on sys.path, "
        "builtins, dotted and garbled names, with args/kwds/state/listitems/dictitems content, at every node position; "
        "loaded by full_load(_all), FullLoader, CFullLoader. A second arm first loads the same document (canary names only) "
        "with UnsafeLoader in the same process, so that state shared between loader classes is exercised. Oracle: monitors "
        "(no import/exec/open/... audit event, sys.modules unchanged, no call outside lib/yaml + stdlib, no call of a named "
        "object, no canary __new__/__init__/__setstate__/__setattr__/extend/metaclass record); the result holds only plain "
        "data, tuples, complex numbers and objects that are identical to an attribute of a module imported before the load; "
        "a python/object, object/new, object/apply or module tag at a dispatched position must give ConstructorError; the "
        "FullLoader tables are the safe tables + the 12 value tags + the python/name multi-constructor. Non-trivial = the "
        "document names something importable or callable at a dispatched position; distinct = hash of text.")
ASSUMPTIONS = [
    "modules with a PEP 562 module-level __getattr__ are not in the name catalogue (getattr on them runs module code by Python semantics)",
    "exceptions other than YAMLError from value conversions (e.g. ValueError from complex('x')) are not violations of this property",
    "monitors see Python-level calls and audit events only",
]

PLAIN = c01.SAFE_TYPES + (tuple, complex)
CANARY_ONLY = ["canary_imported.func", "canary_imported.Obj", "canary_imported.Plain", "canary_imported.ListSub",
               "canary_imported.VALUE", "canary_imported", "canary_imported.INSTANCE", "len", "int", "dict",
               "collections.OrderedDict", "canary_imported.missing", "", "canary_imported.GENLIKE", "canary_imported.CALLABLE",
               "canary_imported.ITERLIKE"]


def loader_legs():
    import yaml
    legs = [("full_load", None), ("FullLoader", yaml.FullLoader)]
    if have_c():
        legs.append(("CFullLoader", yaml.CFullLoader))
    return legs


_module_attr_ids = {}


def module_attr_ids():
    """ids of every attribute of every module imported so far (computed before the loads of a case)."""
    n = len(sys.modules)
    if _module_attr_ids.get("n") != n:
        ids = set()
        for m in list(sys.modules.values()):
            d = getattr(m, "__dict__", None)
            if isinstance(d, dict):
                for v in list(d.values()):
                    ids.add(id(v))
        _module_attr_ids["ids"] = ids
        _module_attr_ids["n"] = n
    return _module_attr_ids["ids"]


def walk_full_result(obj, allowed_ids):
    seen = set()
    stack = [obj]
    while stack:
        x = stack.pop()
        t = type(x)
        if id(x) in allowed_ids:
            continue        # an existing attribute of an imported module (python/name): returned as is, not walked
        if t in (list, dict, set, tuple):
            if id(x) in seen:
                continue
            seen.add(id(x))
            if t is dict:
                stack.extend(x.keys())
                stack.extend(x.values())
            else:
                stack.extend(x)
            continue
        if t in PLAIN:
            continue
        if id(x) in allowed_ids:
            continue        # an existing attribute of an imported module (python/name)
        return "object of type %s.%s in the result is neither plain data nor an existing module attribute: %.80r" % (
            t.__module__, t.__qualname__, x)
    return None


_UNIMPORTED_EMPTY = __import__("re").compile(r"python/(name|module):(canary_unimported|canary_pkg|antigravity|this)[\w.]*>? ''")


def eval_doc(case, preload=False):
    import yaml
    doc, as_bytes, multi = case
    c01._warm()
    _warm_full()
    text, positions = safety.render(doc)
    if multi:
        text = text + safety.render(dict(doc, explicit=True))[0]
    data = text.encode("utf-8") if as_bytes else text
    dispatched = [p for p in positions if not p[1]]
    cl = set()
    must_reject = False
    for ctx, cons, tag in positions:
        if tag.startswith(safety.PY):
            rest = tag[len(safety.PY):]
            fam = rest.split(":")[0] if ":" in rest else "value-tag"
            cl.add("tag:%s@%s" % (fam, ctx))
            if not cons and any(rest.startswith(f) for f in safety.OBJECT_FAMILIES):
                must_reject = True
                cl.add("object-construction-tag:dispatched")
            if not cons and rest.startswith("name:"):
                cl.add("name-tag:dispatched")
    only_object_tags = all(tag.startswith(safety.PY) and any(tag[len(safety.PY):].startswith(f) for f in safety.OBJECT_FAMILIES)
                           for ctx, cons, tag in positions) and not __import__("re").search(r"!!(int|float|bool|timestamp|binary|null) |!!python/(int|long|float|complex|bool)", text)
    if any((not cons) and tag.startswith("!app-d") for ctx, cons, tag in positions):
        # the application's own constructor (registered on the default loaders by the warm-up) builds that node without
        # looking at its children: what lies below it is not dispatched
        must_reject = False
        cl.add("application-default-loader-tag-in-document")
    gen_named = any((not cons) and tag == safety.PY + "name:canary_imported.NATIVE_GEN" for ctx, cons, tag in positions)
    if gen_named:
        cl.add("name-tag:resolves-to-generator-object")
    if _UNIMPORTED_EMPTY.search(text):
        cl.add("name-or-module-tag:unimported-module:empty-value")
    if preload:
        cl.add("preloaded-with-UnsafeLoader")
        try:
            list(yaml.load_all(data, Loader=yaml.UnsafeLoader))
        except RecursionError:
            pass
        except Exception:
            pass
    failures = []
    evals = 0
    mon = c01.get_monitor()
    allowed_ids = module_attr_ids() | {id(c01.APP_D_VALUE)}     # built by the application's own default-loader constructors
    for lname, L in loader_legs():
        evals += 1
        exc = None
        result = None
        with mon:
            try:
                if L is None:
                    result = list(yaml.full_load_all(data)) if multi else yaml.full_load(data)
                else:
                    result = list(yaml.load_all(data, Loader=L)) if multi else yaml.load(data, Loader=L)
            except RecursionError as e:
                exc = e
            except Exception as e:
                exc = e
        if gen_named:
            # known finding: a python/name tag that resolves to an existing *generator object* is mistaken by construct_object
            # for a two-step constructor and advanced; these effects are keyed apart, every other effect is judged as usual
            adv = [p for p in mon.problems if "_native_gen" in p or "native-gen-" in p or p == "python call into canary_imported.py:record"]
            if adv:
                failures.append(Failure("generator-object-advanced:%s" % lname, "%s\ntext=%r" % (adv[:3], text[:300])))
                mon.problems = [p for p in mon.problems if p not in adv]
        for k in mon.keys():
            failures.append(Failure("effect:%s:%s" % (lname, k), "%s\ntext=%r" % (mon.problems[:4], text[:300])))
        mon.problems = []
        if exc is not None:
            cl.add("outcome:%s" % ("YAMLError" if isinstance(exc, yaml.YAMLError) else type(exc).__name__))
            if must_reject and only_object_tags and not isinstance(exc, (yaml.YAMLError, RecursionError)):
                # every python/* tag of this document is an object-construction tag: the only thing the loader may do with the
                # document is to reject it, and the rejection is a constructor error whatever the name looks like
                failures.append(Failure("object-construction-tag-not-rejected-with-a-yaml-error:%s:%s" % (lname, exc_key(exc)),
                                        "%s\ntext=%r" % (exc_msg(exc), text[:300])))
            continue
        cl.add("outcome:loaded")
        bad = walk_full_result(result, allowed_ids | {id(mon.canary.NATIVE_GEN)})
        if bad:
            failures.append(Failure("constructed-object-in-result:%s" % lname, "%s\ntext=%r" % (bad, text[:300])))
        if must_reject:
            failures.append(Failure("object-construction-tag-accepted:%s" % lname,
                                    "tags %r accepted; result=%.100r\ntext=%r" % (dispatched[:3], result, text[:300])))
    return Eval(failures, sorted(cl), nontrivial=bool({"object-construction-tag:dispatched", "name-tag:dispatched"} & cl),
                ident=text, evals=evals, sample={"text": text[:300]})


def known_class(arm, case, key):
    if key.startswith("generator-object-advanced:"):
        return "name-tag-resolving-to-generator-object-advances-it"
    return None


def pinned_known(key, rec):
    import yaml
    if key == "name-tag-resolving-to-generator-object-advances-it":
        safety.install()
        import canary_imported
        canary_imported.reset()
        del canary_imported.CALLS[:]
        try:
            r = yaml.full_load("!!python/name:canary_imported.NATIVE_GEN ''")
        except yaml.YAMLError:
            return False
        finally:
            calls = list(canary_imported.CALLS)
            del canary_imported.CALLS[:]
            canary_imported.reset()
        return r == "first" and bool(calls)
    return True


def eval_preloaded(case):
    return eval_doc(case, preload=True)


def _warm_full():
    import yaml
    if getattr(_warm_full, "done", False):
        return
    for L in [yaml.FullLoader] + ([yaml.CFullLoader] if have_c() else []):
        for data in ["a: [!!python/tuple [1], !!python/complex 1+2j, !!python/name:os.getcwd '', !!python/bytes YQ==, !!python/long 1]",
                     "!!python/name:nonexistent_module_xyz.attr ''", "!!python/object:os.system {}", "!!python/complex x"]:
            try:
                yaml.load(data, Loader=L)
            except Exception:
                pass
    # an application customises the default loaders through the module-level helpers (no Loader= argument: they fan out to
    # Loader, FullLoader and UnsafeLoader): full loading must stay confined afterwards
    yaml.add_multi_constructor("!c04-app/", lambda loader, suffix, node: None)
    yaml.add_constructor("!c04-c", lambda loader, node: None)
    yaml.add_implicit_resolver("!c04-c", __import__("re").compile("^c04app$"), ["c"])
    _warm_full.done = True


def doc_cases():
    fams = safety.OBJECT_FAMILIES + [safety.NAME_FAMILY, safety.NAME_FAMILY]
    return st.tuples(safety.documents(fams, registry_tags=c01.registry_tags()), st.booleans(), st.sampled_from([False, False, True]))


def preload_cases():
    fams = safety.OBJECT_FAMILIES + [safety.NAME_FAMILY]
    return st.tuples(safety.documents(fams, names=CANARY_ONLY), st.booleans(), st.sampled_from([False, False, True]))


def enum_static(shard, nshards, tier):
    if shard == 0:
        yield "tables"


def eval_static(case):
    import yaml
    from yaml import constructor as C
    failures = []
    core = {"tag:yaml.org,2002:" + n for n in safety.CORE} | {None}
    want = core | {safety.PY + v for v in safety.VALUE_TAGS}
    classes = [("FullLoader", yaml.FullLoader), ("FullConstructor", C.FullConstructor)]
    if have_c():
        classes.append(("CFullLoader", yaml.CFullLoader))
    n = 0
    for name, cls in classes:
        n += 1
        got = set(cls.yaml_constructors) - {"!c04-c", "!app-d", "!c04-base"}
        if got != want:
            failures.append(Failure("static:constructor-table:%s" % name, "extra=%r missing=%r" % (
                sorted(map(str, got - want)), sorted(map(str, want - got)))))
        if set(cls.yaml_multi_constructors) - {"!c04-app/", "!app-dm/"} != {safety.PY + "name:"}:
            failures.append(Failure("static:multi-constructor-table:%s" % name, repr(sorted(map(str, cls.yaml_multi_constructors)))))
        if C.UnsafeConstructor in cls.__mro__:
            failures.append(Failure("static:full-loader-composed-with-unsafe-constructor:%s" % name, repr(cls.__mro__)))
    import inspect
    for fn in (yaml.full_load, yaml.full_load_all):
        n += 1
        if "FullLoader" not in inspect.getsource(fn):
            failures.append(Failure("static:full_load-not-bound-to-FullLoader", inspect.getsource(fn)[-120:]))
    return Eval(failures, ["static:tables"], nontrivial=True, ident="static", evals=n, sample="effective constructor tables")



# ---------------------------------------------------------------------------------------------------------------------------
# 'names' arm: a python/name tag can only hand out the existing attribute itself

def enum_names(shard, nshards, tier):
    k = 0
    for name in safety.NAMES:
        for shape in ("root", "item", "value", "aliased"):
            for as_bytes in (False, True):
                if k % nshards == shard:
                    yield (name, shape, as_bytes)
                k += 1


def eval_name(case):
    """Reference: for 'module.attr' with the module already imported and the attribute in the module's own dictionary the only
    permitted result is that very object (identity), and nothing recorded by the canaries; every other name is left to the
    generated arms (rejection, no import)."""
    import yaml
    name, shape, as_bytes = case
    c01._warm()
    _warm_full()
    import canary_imported
    cl = {"name-identity"}
    tagtext = "!!python/name:%s ''" % name
    text = {"root": "%s\n", "item": "- a\n- %s\n", "value": "k: %s\n", "aliased": "- &n %s\n- *n\n"}[shape] % tagtext
    pick = {"root": lambda r: [r], "item": lambda r: [r[1]], "value": lambda r: [r["k"]], "aliased": lambda r: [r[0], r[1]]}[shape]
    mod, _, attr = name.rpartition(".")
    expected = None
    have = False
    if any(c in name for c in " %") or not attr:
        pass
    elif (mod or "builtins") in sys.modules:
        d = getattr(sys.modules[mod or "builtins"], "__dict__", {})
        if attr in d:
            expected, have = d[attr], True
    if name == "canary_imported.NATIVE_GEN":
        return Eval([], ["name-identity", "name-identity:generator-object (listed finding, judged by the docs arm)"], nontrivial=False,
                    ident=repr(case), evals=0)
    failures = []
    evals = 0
    for lname, L in [("FullLoader", yaml.FullLoader)] + ([("CFullLoader", yaml.CFullLoader)] if have_c() else []) + [("full_load", None)]:
        data = text.encode("utf-8") if as_bytes else text
        canary_imported.reset()
        del canary_imported.CALLS[:]
        before = set(sys.modules)
        evals += 1
        try:
            result = yaml.full_load(data) if L is None else yaml.load(data, Loader=L)
        except yaml.YAMLError:
            if have:
                # (an existing attribute of an imported module may still be refused - the property only says what may be built)
                cl.add("name-identity:existing-attribute-refused")
            continue
        finally:
            calls = list(canary_imported.CALLS)
            del canary_imported.CALLS[:]
            new_modules = sorted(set(sys.modules) - before)
        if calls:
            failures.append(Failure("name:canary-recorded:%s" % lname, "%r while loading %r" % (calls[:4], text)))
        if new_modules:
            failures.append(Failure("name:module-imported:%s" % lname, "%r while loading %r" % (new_modules[:4], text)))
        if not have:
            failures.append(Failure("name:unresolvable-name-loaded:%s" % lname, "%r gave %.80r" % (text, result)))
            continue
        cl.add("name-identity:existing-attribute")
        if isinstance(expected, (list, dict, set, bytearray)):
            cl.add("name-identity:mutable-container")
        for got in pick(result):
            if got is not expected:
                failures.append(Failure("name:result-is-not-the-existing-attribute:%s" % lname,
                                        "%r gave %.80r (type %s), the attribute is %.80r" % (text, got, type(got).__name__, expected)))
                break
    return Eval(failures, sorted(cl), nontrivial=have, ident=repr(case), evals=evals, sample=text)


def arms(tier):
    return [
        Arm("docs", eval_doc, doc_cases, quick=10000, thorough=300000),
        Arm("preloaded", eval_preloaded, preload_cases, quick=4000, thorough=100000),
        Arm("static", eval_static, enum=enum_static, exhaustive=True, shards=1),
        Arm("names", eval_name, enum=enum_names, exhaustive=True),
    ]


MIN_CLASS_COUNTS = {"name-or-module-tag:unimported-module:empty-value": 300, "object-construction-tag:dispatched": 2000}
REQUIRED_CLASSES = ["name-identity:mutable-container", "name-identity:existing-attribute", "object-construction-tag:dispatched", "name-tag:dispatched", "tag:object/apply@root", "tag:object@key",
                    "tag:module@value", "tag:name@item", "outcome:loaded", "outcome:YAMLError", "preloaded-with-UnsafeLoader",
                    "static:tables"]
