"""C10 - customising one loader or dumper class never changes another."""
import re

from hypothesis import strategies as st

from vlib import registry_model as rm
from vlib.runner import Arm, Eval, Failure
from vlib.util import exc_key, exc_msg, have_c

PROPERTY = "C10"
LEVEL = "exploration"
RULE = ("Hypothesis-generated histories (lists of up to 25 operations, shrunk as one value; thorough tier additionally enumerates "
        "every history of length <= 3 over a reduced alphabet) over a growing class lattice whose roots are all shipped loader "
        "and dumper classes incl. the LibYAML ones: define a subclass (single or diamond inheritance), add_constructor, "
        "add_multi_constructor (prefix or None), add_representer, add_multi_representer, add_implicit_resolver (first list or "
        "None), add_path_resolver on a class, the module-level yaml.add_* helpers with and without explicit Loader=/Dumper=, "
        "and definition of a YAMLObject subclass (yaml_loader a class or a list, yaml_tag set or None). Oracle = "
        "vlib/registry_model.py, an executable model of the copy-on-write rule: after EVERY step, for every class of the "
        "lattice and every registry kind, the table seen through attribute lookup equals the model's effective table, no two "
        "owners share a table object (or a per-character resolver list), and - every few steps - behaviour agrees: loading a "
        "probe document for each tag in use, dumping a probe object of each type in use and resolving each pattern in use "
        "gives the model's predicted winner for every class. The registries of the shipped classes are restored (and "
        "fingerprint-checked) after each history. Non-trivial = the history registers on a class that has both a base "
        "and a derived class in the lattice; distinct = hash of the history.")
ASSUMPTIONS = [
    "histories run in one worker process; the shipped classes' registries are restored to their import-time content after each "
    "history and a fingerprint comparison turns any residue into a harness error",
    "prefixes of multi-constructors are pairwise non-overlapping, so 'first matching prefix' is unambiguous",
]

TAGS = ["!t0", "!t1", "!t2", "tag:yaml.org,2002:int", None]
PREFIXES = ["!p0/", "!p1/", None]
PATTERNS = [("!i0", "^zz0$", "z"), ("!i1", "^zz[0-9]$", "z"), ("!i2", "^yq0$", "y"), ("!i3", "^[0-9]+x$", "0123456789")]
FIRSTS = ["own", "none", "wide"]
# (path as the caller writes it, kind, the (node_check, index_check) pairs the documented rule turns it into; node classes are
# written "M" / "Q" / "S" here).  A bare element is an index check; a 2-tuple is (node check, index check); a 1-tuple is
# (node check,) and matches any KEY of that node; None / False match any value.
PATHS = [(("k0",), "scalar", ((None, "k0"),)), (("k1", 0), None, ((None, "k1"), (None, 0))), ((), "mapping", ()),
         (((dict, "k1"), (list, 1)), None, (("M", "k1"), ("Q", 1))), (((dict,),), "scalar", (("M", True),)),
         ((None, None), None, ((None, None), (None, None))), (((list, None),), None, (("Q", None),)), ((["M"], ), None, (("M", True),)),
         (((None, False),), "sequence", ((None, False),))]


class P0:
    pass


class P1(P0):
    pass


class P2:
    pass


TYPES = [P0, P1, P2, int, None]
_REGEX = {p: re.compile(p) for _, p, _ in PATTERNS}


def mk_ctor(n):
    def ctor(loader, node):
        return ("ctor", n)
    ctor.__name__ = "ctor%d" % n
    return ctor


def mk_mctor(n):
    def mctor(loader, suffix, node):
        return ("mctor", n)
    mctor.__name__ = "mctor%d" % n
    return mctor


def mk_repr(n):
    def representer(dumper, data):
        return dumper.represent_scalar("!r%d" % n, "x")
    representer.__name__ = "repr%d" % n
    return representer


class World:
    def __init__(self):
        import yaml
        self.yaml = yaml
        names_l = ["BaseLoader", "SafeLoader", "FullLoader", "Loader", "UnsafeLoader"]
        names_d = ["BaseDumper", "SafeDumper", "Dumper"]
        if have_c():
            names_l += ["CBaseLoader", "CSafeLoader", "CFullLoader", "CLoader", "CUnsafeLoader"]
            names_d += ["CBaseDumper", "CSafeDumper", "CDumper"]
        self.loaders = [getattr(yaml, n) for n in names_l]
        self.dumpers = [getattr(yaml, n) for n in names_d]
        self.shipped = list(self.loaders) + list(self.dumpers)
        self.saved = self.snapshot()
        self.model = rm.Model(self.shipped)
        self.counter = 0
        self.used_tags = set()
        self.used_types = set()
        self.used_patterns = set()
        self.used_paths = set()
        self.targets = set()
        self.yobjs = []
        self.ybases = []

    def all_component_classes(self):
        seen = []
        for c in self.shipped:
            for k in c.__mro__:
                if k not in seen and k is not object:
                    seen.append(k)
        return seen

    def snapshot(self):
        snap = {}
        for c in self.all_component_classes():
            for kind, attr in rm.KINDS.items():
                if attr in c.__dict__:
                    snap[(c, attr)] = rm.snapshot_table(kind, c.__dict__[attr])
        return snap

    def restore(self):
        for c in self.all_component_classes():
            for kind, attr in rm.KINDS.items():
                if (c, attr) in self.saved:
                    setattr(c, attr, rm.snapshot_table(kind, self.saved[(c, attr)]))
                elif attr in c.__dict__:
                    delattr(c, attr)

    def fingerprint(self):
        out = []
        for c in self.all_component_classes():
            for kind, attr in rm.KINDS.items():
                t = c.__dict__.get(attr)
                if t is None:
                    out.append((c.__name__, attr, None))
                elif kind == "implicit":
                    out.append((c.__name__, attr, tuple((k, tuple((tg, r.pattern) for tg, r in v)) for k, v in t.items())))
                else:
                    out.append((c.__name__, attr, tuple((repr(k), getattr(v, "__qualname__", repr(v))) for k, v in t.items())))
        return out

    def classes(self):
        return self.loaders + self.dumpers

    def fresh(self):
        self.counter += 1
        return self.counter


def _is_c(cls):
    return any(k.__name__ in ("CParser", "CEmitter") for k in cls.__mro__)


def apply_op(w, op):
    """Apply one operation to the real classes and to the model.  Returns a short description."""
    yaml = w.yaml
    kind = op[0]
    if kind == "subclass":
        _, side, i, j = op
        pool = w.loaders if side == 0 else w.dumpers
        b1 = pool[i % len(pool)]
        bases = (b1,)
        if j is not None:
            b2 = pool[j % len(pool)]
            # a diamond mixes only classes of one back-end (a LibYAML and a pure-Python emitter/parser cannot be combined)
            if b2 is not b1 and _is_c(b1) == _is_c(b2):
                bases = (b1, b2)
        try:
            cls = type("Sub%d" % w.fresh(), bases, {})
        except TypeError:
            cls = type("Sub%d" % w.fresh(), (b1,), {})      # no consistent MRO: single inheritance instead
        pool.append(cls)
        w.model.new_class(cls)
        return "class %s(%s)" % (cls.__name__, ", ".join(b.__name__ for b in cls.__bases__))
    if kind in ("ctor", "mctor"):
        _, i, k = op
        cls = w.loaders[i % len(w.loaders)]
        n = w.fresh()
        if kind == "ctor":
            tag = TAGS[k % len(TAGS)]
            fn = mk_ctor(n)
            cls.add_constructor(tag, fn)
            w.used_tags.add(tag)
        else:
            tag = PREFIXES[k % len(PREFIXES)]
            fn = mk_mctor(n)
            cls.add_multi_constructor(tag, fn)
            w.used_tags.add(tag + "s" if tag else "!unknown")
        w.model.register(cls, kind, tag, fn)
        w.targets.add(cls)
        return "%s.add_%s(%r)" % (cls.__name__, kind, tag)
    if kind in ("repr", "mrepr"):
        _, i, k = op
        cls = w.dumpers[i % len(w.dumpers)]
        typ = TYPES[k % len(TYPES)]
        fn = mk_repr(w.fresh())
        (cls.add_representer if kind == "repr" else cls.add_multi_representer)(typ, fn)
        w.model.register(cls, kind, typ, fn)
        w.used_types.add(typ)
        w.targets.add(cls)
        return "%s.add_%s(%s)" % (cls.__name__, kind, getattr(typ, "__name__", typ))
    if kind == "implicit":
        _, i, k, f = op
        allc = w.classes()
        cls = allc[i % len(allc)]
        tag, pat, own_first = PATTERNS[k % len(PATTERNS)]
        first = {"own": list(own_first), "none": None, "wide": list("zy0")}[FIRSTS[f % len(FIRSTS)]]
        cls.add_implicit_resolver(tag, _REGEX[pat], first)
        w.model.register(cls, "implicit", None, (tag, _REGEX[pat], first))
        w.used_patterns.add(k % len(PATTERNS))
        w.targets.add(cls)
        return "%s.add_implicit_resolver(%r, %r, %r)" % (cls.__name__, tag, pat, first)
    if kind == "path":
        _, i, k = op
        allc = w.classes()
        cls = allc[i % len(allc)]
        path, nk, norm = PATHS[k % len(PATHS)]
        nodes = yaml.nodes
        ncls = {"M": nodes.MappingNode, "Q": nodes.SequenceNode, "S": nodes.ScalarNode, None: None}
        kindcls = {"scalar": nodes.ScalarNode, "mapping": nodes.MappingNode, "sequence": nodes.SequenceNode, None: None}[nk]
        tag = "!path%d" % (k % len(PATHS))
        given = [([ncls[e[0]]] if isinstance(e, list) else e) for e in path]     # ["M"] stands for a 1-element LIST [MappingNode]
        cls.add_path_resolver(tag, given, {"scalar": str, "mapping": dict, "sequence": list, None: None}[nk])
        w.model.register(cls, "path", (tuple((ncls[a], b) for a, b in norm), kindcls), tag)
        w.used_paths.add(k % len(PATHS))
        w.targets.add(cls)
        return "%s.add_path_resolver(%r, %r)" % (cls.__name__, tag, path)
    if kind == "mod":
        _, what, k, li, di = op
        L = w.loaders[li % len(w.loaders)] if li is not None else None
        D = w.dumpers[di % len(w.dumpers)] if di is not None else None
        fan_l = [L] if L is not None else [yaml.Loader, yaml.FullLoader, yaml.UnsafeLoader]
        fan_d = [D] if D is not None else [yaml.Dumper]
        n = w.fresh()
        if what == "ctor":
            tag = TAGS[k % len(TAGS)]
            fn = mk_ctor(n)
            yaml.add_constructor(tag, fn, **({"Loader": L} if L is not None else {}))
            for c in fan_l:
                w.model.register(c, "ctor", tag, fn)
            w.used_tags.add(tag)
        elif what == "mctor":
            tag = PREFIXES[k % len(PREFIXES)]
            fn = mk_mctor(n)
            yaml.add_multi_constructor(tag, fn, **({"Loader": L} if L is not None else {}))
            for c in fan_l:
                w.model.register(c, "mctor", tag, fn)
            w.used_tags.add(tag + "s" if tag else "!unknown")
        elif what in ("repr", "mrepr"):
            typ = TYPES[k % len(TYPES)]
            fn = mk_repr(n)
            (yaml.add_representer if what == "repr" else yaml.add_multi_representer)(typ, fn, **({"Dumper": D} if D is not None else {}))
            for c in fan_d:
                w.model.register(c, what, typ, fn)
            w.used_types.add(typ)
        elif what == "implicit":
            tag, pat, own_first = PATTERNS[k % len(PATTERNS)]
            kw = {}
            if L is not None:
                kw["Loader"] = L
            if D is not None:
                kw["Dumper"] = D
            yaml.add_implicit_resolver(tag, _REGEX[pat], list(own_first), **kw)
            for c in fan_l + fan_d:
                w.model.register(c, "implicit", None, (tag, _REGEX[pat], list(own_first)))
            w.used_patterns.add(k % len(PATTERNS))
        w.targets.update(fan_l if what in ("ctor", "mctor") else fan_d if what in ("repr", "mrepr") else fan_l + fan_d)
        return "yaml.add_%s(#%d, Loader=%s, Dumper=%s)" % (what, k, getattr(L, "__name__", None), getattr(D, "__name__", None))
    if kind == "yamlobject":
        _, spec, di, k = op
        D = w.dumpers[di % len(w.dumpers)]
        if spec[0] == "one":
            ls = w.loaders[spec[1] % len(w.loaders)]
            fan = [ls]
        elif spec[0] == "list":
            fan = []
            for x in spec[1]:
                c = w.loaders[x % len(w.loaders)]
                if c not in fan:
                    fan.append(c)
            ls = list(fan)
        else:
            ls = None
            fan = [yaml.Loader, yaml.FullLoader, yaml.UnsafeLoader]
            D = None
        tag = [None, "!y0", "!y1"][k % 3]
        ns = {"yaml_tag": tag} if k % 4 != 3 else {}
        if ls is not None:
            ns["yaml_loader"] = ls
            ns["yaml_dumper"] = D
        cls = type("Y%d" % w.fresh(), (yaml.YAMLObject,), ns)
        w.ybases.append((cls, list(fan), D if D is not None else yaml.Dumper))
        if "yaml_tag" in ns and tag is not None:
            for c in fan:
                w.model.register(c, "ctor", tag, cls.from_yaml)
            dd = D if D is not None else yaml.Dumper
            w.model.register(dd, "repr", cls, cls.to_yaml)
            w.used_tags.add(tag)
            w.targets.update(fan + [dd])
            w.yobjs.append(cls)
        return "class %s(YAMLObject) tag=%r loader=%r" % (cls.__name__, tag, [getattr(c, "__name__", c) for c in fan])
    if kind == "use":
        # a class is used (load / dump) between registrations: whatever it caches must not outlive a later registration
        _, i, _k = op
        allc = w.classes()
        cls = allc[i % len(allc)]
        try:
            if cls in w.loaders:
                yaml.compose("k0: v\nk1: [a, b]\n", Loader=cls)
                yaml.load("- !t0 x\n- zz0\n", Loader=cls)
            else:
                yaml.dump({"k0": "v", "k1": ["a", P0()]}, Dumper=cls)
        except Exception:
            pass
        return "use %s" % cls.__name__
    if kind == "yamlobject_pair":
        # yaml_loader = [A, B] with B an (unregistered) subclass of A, A first: both are explicit targets
        _, i, k = op
        A = w.loaders[i % len(w.loaders)]
        B = type("Sub%d" % w.fresh(), (A,), {})
        w.loaders.append(B)
        w.model.new_class(B)
        D = type("PrivD%d" % w.fresh(), (yaml.SafeDumper,), {})
        w.model.new_class(D)
        tag = ["!w0", "!w1"][k % 2]
        cls = type("W%d" % w.fresh(), (yaml.YAMLObject,), {"yaml_tag": tag, "yaml_loader": [A, B] if k % 3 else [B, A], "yaml_dumper": D})
        for c in (A, B):
            w.model.register(c, "ctor", tag, cls.from_yaml)
        w.model.register(D, "repr", cls, cls.to_yaml)
        w.targets.update([A, B])
        return "class %s(YAMLObject) tag=%r loader=[%s, %s]" % (cls.__name__, tag, A.__name__, B.__name__)
    if kind == "yamlobject_sub":
        # a subclass of an earlier YAMLObject class that declares only its tag: loader and dumper are inherited
        _, bi, k = op
        if not w.ybases:
            return apply_op(w, ("yamlobject", ("default",), 0, 1))
        base, fan, dd = w.ybases[bi % len(w.ybases)]
        tag = ["!z0", "!z1", None][k % 3]
        cls = type("Z%d" % w.fresh(), (base,), {"yaml_tag": tag})
        w.ybases.append((cls, fan, dd))
        if tag is not None:
            for c in fan:
                w.model.register(c, "ctor", tag, cls.from_yaml)
            w.model.register(dd, "repr", cls, cls.to_yaml)
            w.used_tags.add(tag)
            w.targets.update(fan + [dd])
        return "class %s(%s) tag=%r (loader/dumper inherited: %r / %s)" % (cls.__name__, base.__name__, tag, [c.__name__ for c in fan], dd.__name__)
    raise AssertionError(op)


def check_tables(w, failures, step, desc):
    classes = w.classes() + [c for c in w.all_component_classes() if c not in w.classes()]
    for cls in classes:
        for kind in rm.KINDS:
            real = rm.real_effective(cls, kind)
            model = w.model.effective(cls, kind)
            if not rm.tables_equal(kind, model, real):
                failures.append(Failure("table-differs-from-rule:%s:%s" % (kind, "shipped" if cls in w.shipped else "component" if not cls.__name__.startswith("Sub") else "subclass"),
                                        "after step %d (%s): %s.%s\nmodel: %.300r\nreal:  %.300r" % (
                                            step, desc, cls.__name__, rm.KINDS[kind], _brief(kind, model), _brief(kind, real))))
                return False
    # no shared table objects between distinct owners
    owners = {}
    for (cls, kind), _t in w.model.own.items():
        real = cls.__dict__.get(rm.KINDS[kind])
        if real is None:
            failures.append(Failure("owner-has-no-own-table:%s" % kind, "after step %d (%s): %s" % (step, desc, cls.__name__)))
            return False
        if (id(real), kind) in owners and owners[(id(real), kind)] is not cls:
            failures.append(Failure("table-object-shared:%s" % kind, "after step %d (%s): %s and %s share one table object" % (
                step, desc, cls.__name__, owners[(id(real), kind)].__name__)))
            return False
        owners[(id(real), kind)] = cls
        if kind == "implicit":
            for ch, lst in real.items():
                key = (id(lst), "implicit-list")
                if key in owners and owners[key] is not cls:
                    failures.append(Failure("resolver-list-shared", "after step %d (%s): %s and %s share the list for %r" % (
                        step, desc, cls.__name__, owners[key].__name__, ch)))
                    return False
                owners[key] = cls
    return True


def _brief(kind, t):
    if t is None:
        return None
    if kind == "implicit":
        return {k: [(tg, r.pattern) for tg, r in v] for k, v in t.items() if k in ("z", "y", "0", None)}
    return {repr(k): getattr(v, "__name__", repr(v)) for k, v in t.items() if not (isinstance(k, str) and k.startswith("tag:yaml.org,2002:") and k != "tag:yaml.org,2002:int")}


def predict_ctor(w, cls, tag):
    ctors = w.model.effective(cls, "ctor") or {}
    multi = w.model.effective(cls, "mctor") or {}
    if tag in ctors:
        return ctors[tag]
    for p in multi:
        if p is not None and tag.startswith(p):
            return multi[p]
    if None in multi:
        return multi[None]
    if None in ctors:
        return ctors[None]
    return "default"


def outcome_of_ctor(fn):
    name = getattr(fn, "__name__", "")
    if name.startswith("ctor") or name.startswith("mctor"):
        return name
    return None


def predict_path_tag(table, node, ancestry, default):
    """The documented path-resolver rule, applied to one node: a registered (path, kind) applies when the path is as long as
    the node's depth, every (node check, index check) pair accepts the corresponding (parent, index) step and kind is None or
    the node's class; among several the exact kind wins over None, the later registration over the earlier."""
    hits = {}
    for (path, kind), tag in table.items():
        if len(path) != len(ancestry):
            continue
        ok = True
        for (node_check, index_check), (parent, index) in zip(path, ancestry):
            if isinstance(node_check, str):
                ok = parent.tag == node_check
            elif node_check is not None:
                ok = isinstance(parent, node_check)
            if ok and index_check is True:
                ok = index is None
            elif ok and (index_check is False or index_check is None):
                ok = index is not None
            elif ok and isinstance(index_check, str):
                ok = getattr(index, "id", None) == "scalar" and index.value == index_check
            elif ok and isinstance(index_check, int):
                ok = index_check == index and not hasattr(index, "id")
            if not ok:
                break
        if ok:
            hits[kind] = tag
    if type(node) in hits:
        return hits[type(node)]
    if None in hits:
        return hits[None]
    return default


def check_behaviour(w, failures, step, desc):
    yaml = w.yaml
    evals = 0
    for cls in w.loaders:
        for tag in sorted(t for t in w.used_tags if t):
            if tag.startswith("!y") or tag.startswith("!z"):
                continue
            evals += 1
            text = "!<%s> 5" % tag
            want = predict_ctor(w, cls, tag)
            wname = outcome_of_ctor(want) if want != "default" else None
            try:
                got = yaml.load(text, Loader=cls)
            except yaml.YAMLError:
                got = "error"
            except Exception as e:
                failures.append(Failure("probe-load-raised:%s" % exc_key(e), "%s on %s: %s" % (text, cls.__name__, exc_msg(e))))
                return evals
            # every entry point that takes Loader= uses that class
            try:
                got_all = list(yaml.load_all(text, Loader=cls))[0]
            except yaml.YAMLError:
                got_all = "error"
            if got_all != got:
                failures.append(Failure("behaviour:entry-points-disagree:load_all", "after step %d (%s): %s: load gives %r, load_all %r for %r" % (
                    step, desc, cls.__name__, got, got_all, text)))
                return evals
            gname = "%s%d" % got if isinstance(got, tuple) and len(got) == 2 and got[0] in ("ctor", "mctor") else None
            if wname != gname:
                failures.append(Failure("behaviour:constructor-winner", "after step %d (%s): %s loads %r with %r, the rule predicts %r" % (
                    step, desc, cls.__name__, text, gname or got, wname or getattr(want, "__qualname__", want))))
                return evals
    for cls in w.dumpers:
        reps = w.model.effective(cls, "repr") or {}
        multi = w.model.effective(cls, "mrepr") or {}
        for typ in [t for t in (P0, P1, P2) if t in w.used_types or P0 in w.used_types]:
            evals += 1
            want = None
            if typ in reps:
                want = reps[typ]
            else:
                for t in typ.__mro__:
                    if t in multi:
                        want = multi[t]
                        break
                else:
                    if None in multi:
                        want = multi[None]
                    elif None in reps:
                        want = reps[None]
            wname = getattr(want, "__name__", "") if want is not None else ""
            wtag = "!r" + wname[4:] if re.match(r"^repr[0-9]+$", wname) else None
            try:
                out = yaml.dump(typ(), Dumper=cls)
            except yaml.YAMLError:
                out = "error"
            except Exception as e:
                failures.append(Failure("probe-dump-raised:%s" % exc_key(e), "%s() on %s: %s" % (typ.__name__, cls.__name__, exc_msg(e))))
                return evals
            try:
                out_all = yaml.dump_all([typ()], Dumper=cls)
            except yaml.YAMLError:
                out_all = "error"
            if out_all != out:
                failures.append(Failure("behaviour:entry-points-disagree:dump_all", "after step %d (%s): %s: dump gives %r, dump_all %r" % (
                    step, desc, cls.__name__, out[:60], out_all[:60])))
                return evals
            m = re.search(r"!r[0-9]+", out)
            gtag = m.group() if m else None
            if gtag != wtag:
                failures.append(Failure("behaviour:representer-winner", "after step %d (%s): %s dumps %s() as %r, the rule predicts %r" % (
                    step, desc, cls.__name__, typ.__name__, out[:60], wtag or wname)))
                return evals
    probes = {0: "zz0", 1: "zz5", 2: "yq0", 3: "12x"}
    for cls in w.loaders:
        table = w.model.effective(cls, "implicit") or {}
        if w.model.effective(cls, "path"):
            continue
        for k in sorted(w.used_patterns):
            text = probes[k]
            evals += 1
            want = "tag:yaml.org,2002:str"
            for tg, rx in table.get(text[0], []) + table.get(None, []):
                if rx.match(text):
                    want = tg
                    break
            try:
                got = yaml.compose(text, Loader=cls).tag
            except Exception as e:
                failures.append(Failure("probe-compose-raised:%s" % exc_key(e), "%s on %s: %s" % (text, cls.__name__, exc_msg(e))))
                return evals
            if got != want:
                failures.append(Failure("behaviour:implicit-resolver", "after step %d (%s): %s resolves %r to %r, the rule predicts %r" % (
                    step, desc, cls.__name__, text, got, want)))
                return evals
            got_all = [n.tag for n in yaml.compose_all(text, Loader=cls)]
            got_ev = [e.implicit for e in yaml.parse(text, Loader=cls) if type(e).__name__ == "ScalarEvent"]
            if got_all != [want] or got_ev != [(True, False)]:
                failures.append(Failure("behaviour:entry-points-disagree:compose_all", "after step %d (%s): %s: compose_all gives %r for %r, the rule predicts %r" % (
                    step, desc, cls.__name__, got_all, text, want)))
                return evals
    # the dumper side of the implicit resolvers, through serialize / serialize_all: a !!str node whose text the class resolves
    # to another tag cannot be written plain
    for cls in w.dumpers:
        table = w.model.effective(cls, "implicit") or {}
        if w.model.effective(cls, "path"):
            continue
        for k in sorted(w.used_patterns):
            text = probes[k]
            evals += 1
            want = "tag:yaml.org,2002:str"
            for tg, rx in table.get(text[0], []) + table.get(None, []):
                if rx.match(text):
                    want = tg
                    break
            node = yaml.nodes.ScalarNode("tag:yaml.org,2002:str", text)
            try:
                out = yaml.serialize(node, Dumper=cls)
                out_all = yaml.serialize_all([node], Dumper=cls)
            except Exception as e:
                failures.append(Failure("probe-serialize-raised:%s" % exc_key(e), "%r on %s: %s" % (text, cls.__name__, exc_msg(e))))
                return evals
            plain = out.startswith(text)
            if out_all != out or plain != (want == "tag:yaml.org,2002:str"):
                failures.append(Failure("behaviour:implicit-resolver:serialize", "after step %d (%s): %s serializes the !!str node %r as %r (serialize_all: %r); the rule says the class resolves that text to %r" % (
                    step, desc, cls.__name__, text, out, out_all, want)))
                return evals
    if w.used_paths:
        nodes = yaml.nodes
        T = "tag:yaml.org,2002:"
        for cls in w.loaders:
            table = w.model.effective(cls, "path") or {}
            evals += 1
            try:
                root = yaml.compose("k0: v\nk1: [a, b]\n", Loader=cls)
            except Exception as e:
                failures.append(Failure("probe-compose-raised:%s" % exc_key(e), "path probe on %s: %s" % (cls.__name__, exc_msg(e))))
                return evals
            (k0, v0), (k1, seq) = root.value
            # every node of the probe with its ancestry [(parent node, index)]: index = None for a mapping key, the key node
            # for a mapping value, the position for a sequence item
            places = [("root", root, []), ("key k0", k0, [(root, None)]), ("value of k0", v0, [(root, k0)]), ("key k1", k1, [(root, None)]),
                      ("value of k1", seq, [(root, k1)]), ("k1[0]", seq.value[0], [(root, k1), (seq, 0)]), ("k1[1]", seq.value[1], [(root, k1), (seq, 1)])]
            want, got = [], []
            for name, node, anc in places:
                default = {"scalar": T + "str", "sequence": T + "seq", "mapping": T + "map"}[node.id]
                want.append((name, predict_path_tag(table, node, anc, default)))
                got.append((name, node.tag))
            if got != want:
                bad = [(g, x) for g, x in zip(got, want) if g != x][0]
                failures.append(Failure("behaviour:path-resolver", "after step %d (%s): %s resolves %s to %r, the rule predicts %r\ntable=%.300r" % (
                    step, desc, cls.__name__, bad[0][0], bad[0][1], bad[1][1], list(table.items()))))
                return evals
    return evals


def eval_history(ops):
    w = World()
    failures = []
    evals = 0
    cl = set()
    try:
        base_fp = w.fingerprint()
        for step, op in enumerate(ops):
            try:
                desc = apply_op(w, op)
            except Exception as e:
                failures.append(Failure("operation-raised:%s:%s" % (op[0], exc_key(e)), "%r: %s" % (op, exc_msg(e))))
                break
            cl.add("op:%s" % (op[0] if op[0] != "mod" else "mod_" + op[1]))
            evals += 1
            if not check_tables(w, failures, step, desc):
                break
            if step % 4 == 3 or step == len(ops) - 1:
                evals += check_behaviour(w, failures, step, desc)
                if failures:
                    break
        # non-triviality: a target with both a base and a derived class in the lattice
        allc = w.classes()
        for t in w.targets:
            has_derived = any(t in c.__mro__[1:] for c in allc)
            has_base = any(b in allc or b in w.all_component_classes() for b in t.__mro__[1:])
            if has_derived and has_base:
                cl.add("target-with-base-and-derived")
            if has_derived:
                cl.add("target-with-derived")
        if any(len(c.__bases__) > 1 and c.__name__.startswith("Sub") for c in allc):
            cl.add("diamond")
    finally:
        w.restore()
        if w.fingerprint() != base_fp:
            raise AssertionError("registries of the shipped classes were not restored")
    return Eval(failures, sorted(cl), nontrivial="target-with-base-and-derived" in cl, ident=repr(ops), evals=max(evals, 1),
                sample={"history": [repr(o) for o in ops[:12]]})


# ------------------------------------------------------------------------------------------------

def op_strategy():
    i = st.integers(0, 40)
    k = st.integers(0, 7)
    opt = st.one_of(st.none(), i)
    spec = st.one_of(st.tuples(st.just("one"), i), st.tuples(st.just("list"), st.lists(i, min_size=1, max_size=3)), st.just(("default",)))
    return st.one_of(
        st.tuples(st.just("subclass"), st.integers(0, 1), i, opt),
        st.tuples(st.just("subclass"), st.integers(0, 1), i, opt),
        st.tuples(st.sampled_from(["ctor", "mctor"]), i, k),
        st.tuples(st.sampled_from(["ctor", "mctor"]), i, k),
        st.tuples(st.sampled_from(["repr", "mrepr"]), i, k),
        st.tuples(st.just("implicit"), i, k, st.integers(0, 2)),
        st.tuples(st.just("implicit"), i, k, st.integers(0, 2)),
        st.tuples(st.just("path"), i, k),
        st.tuples(st.just("mod"), st.sampled_from(["ctor", "mctor", "repr", "mrepr", "implicit"]), k, opt, opt),
        st.tuples(st.just("yamlobject"), spec, i, k),
        st.tuples(st.just("yamlobject_sub"), i, k),
        st.tuples(st.just("yamlobject_pair"), i, k),
        st.tuples(st.just("use"), i, k),
        st.tuples(st.just("use"), i, k),
    )


def histories():
    return st.lists(op_strategy(), min_size=1, max_size=25)


def enum_short(shard, nshards, tier):
    """Every history of length <= 2 (quick) / <= 3 (thorough) over a reduced alphabet on a small lattice."""
    import itertools
    alpha = [("subclass", 0, 1, None), ("subclass", 0, 15, None), ("subclass", 1, 1, None), ("ctor", 1, 0), ("ctor", 15, 0), ("mctor", 15, 0),
             ("repr", 1, 0), ("repr", 8, 0), ("mrepr", 8, 0), ("implicit", 1, 0, 0), ("implicit", 15, 1, 1), ("implicit", 17, 0, 2),
             ("mod", "ctor", 0, None, None), ("mod", "implicit", 0, None, None), ("yamlobject", ("one", 15), 8, 1), ("path", 15, 0), ("yamlobject_sub", 0, 0), ("use", 15, 0), ("use", 16, 0), ("yamlobject_pair", 1, 1)]
    n = 0
    for length in range(1, (3 if tier == "thorough" else 2) + 1):
        for h in itertools.product(alpha, repeat=length):
            if n % nshards == shard:
                yield list(h)
            n += 1


def arms(tier):
    return [Arm("histories", eval_history, histories, quick=12000, thorough=200000),
            Arm("short", eval_history, enum=enum_short, exhaustive=True)]


REQUIRED_CLASSES = ["op:subclass", "op:ctor", "op:mctor", "op:repr", "op:mrepr", "op:implicit", "op:path", "op:mod_ctor", "op:mod_implicit",
                    "op:yamlobject", "op:yamlobject_sub", "op:yamlobject_pair", "op:use", "target-with-base-and-derived", "diamond"]
