"""C05 - emit -> parse returns the same events; ill-formed streams give EmitterError only."""
import itertools
import re

from hypothesis import strategies as st

from vlib import gen_events as ge
from vlib import gen_values as gv
from vlib import greybox
from vlib.runner import Arm, Eval, Failure
from vlib.util import exc_key, exc_msg, have_c, has_foldable_more_indented_line, shorthand_with_flow_indicator

PROPERTY = "C05"
LEVEL = "exploration"
RULE = ("Well-formed arm: Hypothesis draws event streams from the emitter grammar (0-3 documents, nested sequences/mappings, "
        "scalars with arbitrary text, style request, anchor, tag in {none,'!',local,core,URI with non-ASCII,handle-defined}, "
        "%YAML/%TAG directives incl. redefinition of '!'/'!!') x emitter options; each is emitted by the pure-Python and the "
        "LibYAML emitter and re-parsed by both parsers; oracle = event equivalence (kinds, anchors, scalar values, tags modulo "
        "licensed elision, directives). Ill-formed arm: single-edit mutants of well-formed streams and (bounded-exhaustive) all "
        "sequences over 10 event kinds up to length 4 (quick) / 5 (thorough); oracle = EmitterError or clean return. "
        "Non-trivial = a scalar outside [A-Za-z0-9]+, an explicit tag, anchor or directive, or non-default options; "
        "distinct = hash of (stream, options).")
ASSUMPTIONS = [
    "scalar style and flow_style are requests and are not compared (except that a double-quoted request is honoured)",
    "objects that are not events are not fed to the emitters (documented TypeError of the C bridge)",
]

_simple = re.compile(r"^[A-Za-z0-9]+$")


def emitters():
    import yaml
    out = [("py", yaml.Dumper)]
    if have_c():
        out.append(("c", yaml.CDumper))
    return out


def parsers():
    import yaml
    out = [("py", yaml.Loader)]
    if have_c():
        out.append(("c", yaml.CLoader))
    return out


def classes_of(stream, opts, info):
    cl = set()
    texts = ge.scalar_texts(stream)
    if any(not _simple.match(t) for t in texts):
        cl.add("scalar:non-simple")
    for t in texts:
        if "\n" in t:
            cl.add("scalar:multiline")
        if "\x85" in t or "\u2028" in t or "\u2029" in t:
            cl.add("scalar:unicode-break")
        if len(t) > 128:
            cl.add("scalar:len>128")
    if info.get("tag"):
        cl.add("tag:explicit")
    if info.get("anchor"):
        cl.add("anchor")
    if info.get("alias"):
        cl.add("alias")
    if any(d["version"] for d in stream):
        cl.add("directive:YAML")
    if any(d["tags"] for d in stream):
        cl.add("directive:TAG")
    if any(d["tags"] and ("!" in d["tags"] or "!!" in d["tags"]) for d in stream):
        cl.add("directive:TAG-redefines-default")
    if len(stream) > 1:
        cl.add("docs>1")
    if len(stream) == 0:
        cl.add("docs=0")
    if opts:
        cl.add("opts:non-default")
    if opts.get("canonical"):
        cl.add("opts:canonical")
    return cl


def eval_wellformed(case):
    import yaml
    stream, opts = case
    info = {}
    events = ge.build_events(stream, info)
    cl = classes_of(stream, opts, info)
    failures = []
    evals = 0
    for ename, D in emitters():
        try:
            text = yaml.emit(ge.build_events(stream), Dumper=D, **opts)
        except RecursionError:
            raise
        except Exception as e:
            failures.append(Failure("emit-raised:%s:%s" % (ename, exc_key(e)), exc_msg(e)))
            continue
        evals += 1
        for pname, L in parsers():
            evals += 1
            try:
                back = list(yaml.parse(text, Loader=L))
            except RecursionError:
                raise
            except Exception as e:
                failures.append(Failure("parse-rejects-emitted:%s>%s:%s" % (ename, pname, exc_key(e)),
                                        "%s\ntext=%r" % (exc_msg(e), text[:500])))
                continue
            diff = ge.events_equivalent(events, back)
            if diff is not None:
                failures.append(Failure("not-equivalent:%s>%s:%s" % (ename, pname, diff[0]),
                                        "%s\ntext=%r" % (diff[1], text[:500])))
    return Eval(failures, sorted(cl), nontrivial=bool(cl), ident=repr(case), evals=evals,
                sample={"events": [ge.ev_repr(e) for e in events[:12]], "options": repr(opts)})


# --------------------------------------------------------------------------------------------
# event streams obtained by parsing coverage-guided texts (every parser output is a well-formed event stream)

OPT_SETS = [{}, {"canonical": True}, {"width": 10}, {"allow_unicode": True}, {"indent": 4, "width": 20}, {"line_break": "\r\n"},
            {"indent": 7}, {"allow_unicode": True, "width": 5}, {"indent": 9, "width": 12}, {"line_break": "\r", "allow_unicode": True}]


def eval_parsed(case):
    import yaml
    text, oi = case
    opts = OPT_SETS[oi % len(OPT_SETS)]
    try:
        events = list(yaml.parse(text, Loader=yaml.Loader))
    except yaml.YAMLError:
        return Eval([], ["parsed", "parsed:text-rejected"], nontrivial=False, evals=1)
    # libyaml knows %YAML 1.1 and 1.2 only (by design): other versions go through the pure-Python pair
    portable = all(e.version in (None, (1, 1), (1, 2)) for e in events if isinstance(e, yaml.DocumentStartEvent))
    cl = {"parsed", "parsed:docs=%d" % min(3, sum(isinstance(e, yaml.DocumentStartEvent) for e in events))}
    for e in events:
        if isinstance(e, yaml.ScalarEvent):
            cl.add("parsed:scalar-style:%s" % (e.style or "plain"))
            if e.tag:
                cl.add("parsed:tag")
        if getattr(e, "anchor", None):
            cl.add("parsed:anchor")
        if isinstance(e, yaml.DocumentStartEvent) and (e.version or e.tags):
            cl.add("parsed:directive")
    failures = []
    evals = 1
    for ename, D in emitters():
        if ename == "c" and not portable:
            continue
        try:
            out = yaml.emit(yaml.parse(text, Loader=yaml.Loader), Dumper=D, **opts)
        except RecursionError:
            raise
        except Exception as e:
            failures.append(Failure("emit-raised:%s:%s" % (ename, exc_key(e)), exc_msg(e)))
            continue
        evals += 1
        for pname, L in parsers():
            if pname == "c" and not portable:
                continue
            evals += 1
            try:
                back = list(yaml.parse(out, Loader=L))
            except RecursionError:
                raise
            except Exception as e:
                failures.append(Failure("parse-rejects-emitted:%s>%s:%s" % (ename, pname, exc_key(e)), "%s\ntext=%r" % (exc_msg(e), out[:500])))
                continue
            diff = ge.events_equivalent(events, back)
            if diff is not None:
                failures.append(Failure("not-equivalent:%s>%s:%s" % (ename, pname, diff[0]), "%s\ntext=%r" % (diff[1], out[:500])))
    return Eval(failures, sorted(cl), nontrivial=len(events) > 4, ident=repr(case), evals=evals,
                sample={"text": text[:300], "options": repr(opts), "events": [ge.ev_repr(e) for e in events[:10]]})


def parsed_campaign(shard, nshards, tier):
    from vlib.runner import h64
    return greybox.campaign(shard, nshards, tier, PROPERTY, "parsed", quick=14000, thorough=800000,
                            wrap=lambda t: (t, h64(t) % len(OPT_SETS)), valid_only=True)


# --------------------------------------------------------------------------------------------
# ill-formed streams

KINDS = ["SS", "SE", "DS", "DE", "SC", "AL", "QS", "QE", "MS", "ME"]


def mk(kind):
    from yaml import events as E
    return {
        "SS": lambda: E.StreamStartEvent(),
        "SE": lambda: E.StreamEndEvent(),
        "DS": lambda: E.DocumentStartEvent(explicit=False),
        "DE": lambda: E.DocumentEndEvent(explicit=False),
        "SC": lambda: E.ScalarEvent(None, None, (True, True), "a"),
        "AL": lambda: E.AliasEvent("a"),
        "QS": lambda: E.SequenceStartEvent(None, None, True),
        "QE": lambda: E.SequenceEndEvent(),
        "MS": lambda: E.MappingStartEvent(None, None, True),
        "ME": lambda: E.MappingEndEvent(),
    }[kind]()


def run_illformed(events_factory, label):
    """Returns failures for one ill-formed (or arbitrary) event list on both emitters."""
    import yaml
    failures = []
    outcomes = []
    for ename, D in emitters():
        try:
            yaml.emit(events_factory(), Dumper=D)
            outcomes.append("ok")
        except yaml.emitter.EmitterError:
            outcomes.append("EmitterError")
        except RecursionError:
            raise
        except Exception as e:
            if isinstance(e, yaml.YAMLError) and type(e).__name__ == "EmitterError":
                outcomes.append("EmitterError")
                continue
            failures.append(Failure("illformed-raised:%s:%s" % (ename, exc_key(e)), exc_msg(e)))
            outcomes.append(type(e).__name__)
    return failures, outcomes


def eval_kinds(case):
    failures, outcomes = run_illformed(lambda: [mk(k) for k in case], "kinds")
    return Eval(failures, ["illformed:" + outcomes[0]], nontrivial=True, ident=case, evals=len(outcomes),
                sample={"kinds": list(case), "outcomes": outcomes})


def enum_kinds(shard, nshards, tier):
    maxlen = 5 if tier == "thorough" else 4
    i = 0
    for n in range(0, maxlen + 1):
        for seq in itertools.product(KINDS, repeat=n):
            if i % nshards == shard:
                yield seq
            i += 1


def eval_mutant(case):
    stream, edit, pos, pos2, kind = case
    n = len(ge.build_events(stream))

    def factory():
        ev = ge.build_events(stream)
        p = pos % len(ev)
        q = pos2 % len(ev)
        if edit == "drop":
            del ev[p]
        elif edit == "dup":
            ev.insert(p, ev[p])
        elif edit == "swap":
            ev[p], ev[q] = ev[q], ev[p]
        elif edit == "insert":
            ev.insert(p, mk(kind))
        elif edit == "truncate":
            del ev[p:]
        return ev
    failures, outcomes = run_illformed(factory, "mutant")
    return Eval(failures, ["mutant:%s:%s" % (edit, outcomes[0])], nontrivial=True, ident=repr(case), evals=len(outcomes),
                sample={"edit": edit, "pos": pos % n, "kind": kind, "outcomes": outcomes,
                        "events": [ge.ev_repr(e) for e in factory()[:10]]})


def eval_badargs(case):
    """Well-formed structure, but an argument the emitter documents as unsupported."""
    which, = case
    from yaml import events as E
    SS, SE, DE = E.StreamStartEvent, E.StreamEndEvent, E.DocumentEndEvent
    table = {
        "empty-anchor": lambda: [SS(), E.DocumentStartEvent(), E.ScalarEvent("", None, (True, True), "a"), DE(), SE()],
        "bad-anchor": lambda: [SS(), E.DocumentStartEvent(), E.ScalarEvent("a b", None, (True, True), "a"), DE(), SE()],
        "bad-alias": lambda: [SS(), E.DocumentStartEvent(), E.AliasEvent("a*b"), DE(), SE()],
        "no-tag-no-implicit": lambda: [SS(), E.DocumentStartEvent(), E.ScalarEvent(None, None, (False, False), "a"), DE(), SE()],
        "no-tag-no-implicit-seq": lambda: [SS(), E.DocumentStartEvent(), E.SequenceStartEvent(None, None, False), E.SequenceEndEvent(), DE(), SE()],
        "empty-tag": lambda: [SS(), E.DocumentStartEvent(), E.ScalarEvent(None, "", (False, False), "a"), DE(), SE()],
        "version-2": lambda: [SS(), E.DocumentStartEvent(version=(2, 0)), E.ScalarEvent(None, None, (True, True), "a"), DE(), SE()],
        "bad-handle": lambda: [SS(), E.DocumentStartEvent(tags={"e": "x"}), E.ScalarEvent(None, None, (True, True), "a"), DE(), SE()],
        "bad-handle-chars": lambda: [SS(), E.DocumentStartEvent(tags={"!a b!": "x"}), E.ScalarEvent(None, None, (True, True), "a"), DE(), SE()],
        "empty-prefix": lambda: [SS(), E.DocumentStartEvent(tags={"!e!": ""}), E.ScalarEvent(None, None, (True, True), "a"), DE(), SE()],
    }
    failures, outcomes = run_illformed(table[which], "badargs")
    return Eval(failures, ["badargs:" + which], nontrivial=True, ident=which, evals=len(outcomes),
                sample={"which": which, "outcomes": outcomes})


def enum_badargs(shard, nshards, tier):
    names = ["empty-anchor", "bad-anchor", "bad-alias", "no-tag-no-implicit", "no-tag-no-implicit-seq", "empty-tag",
             "version-2", "bad-handle", "bad-handle-chars", "empty-prefix"]
    for i, n in enumerate(names):
        if i % nshards == shard:
            yield (n,)


def wellformed_cases():
    return st.tuples(ge.streams(3, 10), ge.emit_options())


def scalar_focus_cases():
    """One scalar with generated text in a fixed context; exercises the writers at depth."""
    def mkstream(t):
        text, style, imp, ctx, tag = t
        sc = ("scalar", False, tag, imp if (tag is not None or imp[0] or imp[1]) else (True, True), text, style)
        if ctx == "root":
            root = sc
        elif ctx == "item":
            root = ("seq", False, None, True, False, [sc])
        elif ctx == "key":
            root = ("map", False, None, True, False, [(sc, ("scalar", False, None, (True, True), "v", None))])
        elif ctx == "flow":
            root = ("seq", False, None, True, True, [sc, sc])
        else:
            root = ("seq", False, None, True, False, [("map", False, None, True, False,
                    [(("scalar", False, None, (True, True), "k", None), ("seq", False, None, True, False, [sc]))])])
        return [{"version": None, "tags": None, "explicit_start": False, "explicit_end": False, "root": root}]
    base = st.tuples(gv.text(14), st.sampled_from(ge.STYLES),
                     st.sampled_from([(True, True), (True, False), (False, True), (False, False)]),
                     st.sampled_from(["root", "item", "key", "flow", "deep"]),
                     st.sampled_from([None, None, "!", "tag:yaml.org,2002:str", "!local"])).map(mkstream)
    return st.tuples(base, ge.emit_options())


def mutant_cases():
    return st.tuples(ge.streams(2, 6), st.sampled_from(["drop", "dup", "swap", "insert", "truncate"]),
                     st.integers(0, 60), st.integers(0, 60), st.sampled_from(KINDS))


def arms(tier):
    return [
        Arm("wellformed", eval_wellformed, wellformed_cases, quick=9000, thorough=400000),
        Arm("scalar", eval_wellformed, scalar_focus_cases, quick=12000, thorough=500000),
        Arm("mutant", eval_mutant, mutant_cases, quick=6000, thorough=200000),
        # coverage-guided texts -> parser -> emitter -> parser (vlib/greybox.py)
        Arm("parsed", eval_parsed, enum=parsed_campaign),
        Arm("kinds", eval_kinds, enum=enum_kinds, exhaustive=True),
        Arm("badargs", eval_badargs, enum=enum_badargs, exhaustive=True, shards=1),
    ]


def _c_empty_first_doc(stream, opts):
    """libyaml never writes '---' for an implicit first document whose root emits nothing."""
    if not stream or opts.get("canonical"):
        return False
    d = stream[0]
    r = d["root"]
    return (not d["explicit_start"] and not d["version"] and not d["tags"] and r[0] == "scalar" and not r[1]
            and r[4] == "" and r[3][0] and not r[5])


def known_class(arm, case, key):
    if arm == "parsed" and (key.startswith("not-equivalent:c>") or key.startswith("parse-rejects-emitted:c>")):
        import yaml
        text, oi = case
        opts = OPT_SETS[oi % len(OPT_SETS)]
        events = list(yaml.parse(text, Loader=yaml.Loader))
        if (not opts.get("canonical") and len(events) > 2 and isinstance(events[1], yaml.DocumentStartEvent) and not events[1].explicit
                and isinstance(events[2], yaml.ScalarEvent) and events[2].value == "" and not events[2].style and events[2].implicit[0]
                and not events[2].anchor and (key.endswith(":structure") or key.startswith("parse-rejects-emitted:c>"))):
            return "libyaml-drops-empty-implicit-first-document"
        for e in events:
            if isinstance(e, yaml.ScalarEvent) and e.style == ">" and has_foldable_more_indented_line(e.value):
                return "libyaml-folds-inside-more-indented-line"
        if key.startswith(("parse-rejects-emitted:c>c", "not-equivalent:c>c")) and shorthand_with_flow_indicator(events):
            return "libyaml-emitter-writes-flow-indicator-in-shorthand-tag"
        return None
    if arm in ("wellformed", "scalar") and (key.startswith("not-equivalent:c>") or key.startswith("parse-rejects-emitted:c>")):
        if _c_empty_first_doc(*case) and (key.endswith(":structure") or key.startswith("parse-rejects-emitted:c>")):
            return "libyaml-drops-empty-implicit-first-document"
    if arm in ("wellformed", "scalar") and (key.startswith("not-equivalent:c>") or key.startswith("parse-rejects-emitted:c>")):
        stream, opts = case
        for t, style in _scalar_styles(stream):
            if style == ">" and has_foldable_more_indented_line(t):
                return "libyaml-folds-inside-more-indented-line"
    if arm in ("wellformed", "scalar") and key.startswith(("parse-rejects-emitted:c>c", "not-equivalent:c>c")) and shorthand_with_flow_indicator(ge.build_events(case[0])):
        return "libyaml-emitter-writes-flow-indicator-in-shorthand-tag"
    return None


def _scalar_styles(stream):
    out = []

    def go(n):
        if n[0] == "scalar":
            out.append((n[4], n[5]))
        elif n[0] == "seq":
            for c in n[5]:
                go(c)
        elif n[0] == "map":
            for k, v in n[5]:
                go(k)
                go(v)
    for d in stream:
        go(d["root"])
    return out


def pinned_known(key, rec):
    import yaml
    from yaml import events as E
    if key == "libyaml-folds-inside-more-indented-line":
        if not have_c():
            return False
        s = "a\n  word word word word word word word word end\nb"
        ev = [E.StreamStartEvent(), E.DocumentStartEvent(), E.ScalarEvent(None, None, (True, True), s, style=">"),
              E.DocumentEndEvent(), E.StreamEndEvent()]
        back = list(yaml.parse(yaml.emit(ev, Dumper=yaml.CDumper, width=20)))
        return back[2].value != s
    if key == "libyaml-emitter-writes-flow-indicator-in-shorthand-tag":
        if not have_c():
            return False
        ev = [E.StreamStartEvent(), E.DocumentStartEvent(), E.ScalarEvent(None, "!a,b", (False, False), "x"), E.DocumentEndEvent(), E.StreamEndEvent()]
        try:
            list(yaml.parse(yaml.emit(ev, Dumper=yaml.CDumper), Loader=yaml.CLoader))
        except yaml.YAMLError:
            return True
        return False
    if key == "libyaml-drops-empty-implicit-first-document":
        if not have_c():
            return False
        ev = [E.StreamStartEvent(), E.DocumentStartEvent(explicit=False), E.ScalarEvent(None, None, (True, True), ""),
              E.DocumentEndEvent(), E.StreamEndEvent()]
        return len(list(yaml.parse(yaml.emit(ev, Dumper=yaml.CDumper)))) != 5
    return True
