"""C09 - tokens and events are grammatical and their positions are true."""
import itertools

from hypothesis import strategies as st

from vlib import gen_inputs as gi
from vlib import greybox
from vlib import ref_events as rv
from vlib import ref_marks
from vlib.runner import Arm, Eval, Failure
from vlib.util import exc_key, exc_msg, have_c

PROPERTY = "C09"
LEVEL = "exploration"
RULE = ("Inputs: rendered valid documents, their mutations, explicit productions, and bounded-exhaustive strings of length <=4 "
        "(quick) / <=5 (thorough) over the 20-symbol alphabet - ? : , [ ] { } # & * ! | > ' \" % a space LF. For every input that "
        "scans: stream brackets once, block brackets balanced; every mark 0<=start<=end<=len, token starts non-decreasing; "
        "pure-Python (line,column) equal the reference break count; text[start:end] equals the value of single-line plain scalars "
        "and text[start+1:end] of anchors/aliases. For every input that parses: the token kinds are accepted by an independent "
        "recursive-descent acceptor of the documented token grammar, the events it derives (incl. empty scalars where a node is "
        "required) equal the parser's events in kind, scalar value and anchor, and the event kinds satisfy the event grammar; "
        "error marks as in C03. Parser-only arm: a stub token source feeds all token sequences of length <=4 (quick) / <=5 "
        "(thorough) over 20 token kinds framed by STREAM-START/END, plus random longer ones: outcome must be ParserError or a "
        "grammatical event list matching the acceptor. Non-trivial = >=4 tokens and a collection or multi-line scalar.")
ASSUMPTIONS = [
    "LibYAML marks are checked for range and monotonicity only (libyaml counts columns differently for BOM/tab)",
    "the documented token grammar is looser than both parsers in one place (VALUE without KEY in a block mapping): 'parses => "
    "grammatical' uses the documented grammar; the converse ('grammatical => the stub-driven parser accepts') uses the strict "
    "variant that requires the KEY, plus three documented semantic rejections (duplicate %YAML, duplicate %TAG handle, undefined handle)",
]

ALPHABET = ["-", "?", ":", ",", "[", "]", "{", "}", "#", "&", "*", "!", "|", ">", "'", "\"", "%", "a", " ", "\n"]


def backends():
    import yaml
    out = [("py", yaml.Loader)]
    if have_c():
        out.append(("c", yaml.CLoader))
    return out


def check_marks(items, text, backend, li, what):
    n = len(text)
    prev = -1
    prev_end = -1
    for idx, t in enumerate(items):
        s, e = getattr(t, "start_mark", None), getattr(t, "end_mark", None)
        if s is None or e is None:
            return "%s %d (%s) lacks a mark" % (what, idx, type(t).__name__)
        if not (0 <= s.index <= e.index <= n):
            return "%s %d (%s): marks %d..%d outside 0..%d" % (what, idx, type(t).__name__, s.index, e.index, n)
        if s.index < prev:
            return "%s %d (%s): start %d moves backwards (previous start %d)" % (what, idx, type(t).__name__, s.index, prev)
        prev = s.index
        # the flattened sequence start, end, start, end, ... never moves backwards either: an item starts where or after the
        # previous one ended (zero-width items sit between their neighbours)
        if s.index < prev_end:
            return "%s %d (%s): overlap: starts at %d before the previous %s ended (%d)" % (what, idx, type(t).__name__, s.index, what, prev_end)
        prev_end = e.index
        if backend == "py":
            for m, nm in ((s, "start"), (e, "end")):
                exp = li.line_col(m.index)
                if (m.line, m.column) != exp:
                    return "%s %d (%s) %s mark at index %d: line/column (%d,%d), reference %r" % (
                        what, idx, type(t).__name__, nm, m.index, m.line, m.column, exp)
    return None


def check_slices(tokens, text):
    for idx, t in enumerate(tokens):
        name = type(t).__name__
        if getattr(t, "start_mark", None) is None or getattr(t, "end_mark", None) is None:
            continue        # reported by check_marks
        s, e = t.start_mark.index, t.end_mark.index
        if name in ("AnchorToken", "AliasToken"):
            if text[s + 1:e] != t.value:
                return "token %d (%s): text[%d:%d]=%r but value %r" % (idx, name, s + 1, e, text[s + 1:e], t.value)
        elif name == "ScalarToken" and t.plain:
            src = text[s:e]
            if not any(b in src for b in "\r\n\x85  "):
                if src != t.value:
                    return "token %d (plain scalar): text[%d:%d]=%r but value %r" % (idx, s, e, src, t.value)
    return None


def error_mark_msg(exc, text, backend, li):
    import yaml
    if isinstance(exc, yaml.YAMLError):
        # every mark an error carries, under whatever attribute name and on whatever error class (a reader error has none today)
        names = sorted(set(("context_mark", "problem_mark")) | {k for k in getattr(exc, "__dict__", {}) if k.endswith("mark")})
        for nm in names:
            m = getattr(exc, nm, None)
            if m is None or not hasattr(m, "index"):
                continue
            if not (0 <= m.index <= len(text)):
                return "%s.index %d outside 0..%d" % (nm, m.index, len(text))
            if backend == "py" and (m.line, m.column) != li.line_col(m.index):
                return "%s at index %d: line/column (%d,%d), reference %r" % (nm, m.index, m.line, m.column, li.line_col(m.index))
    return None


def run_text(text, make_input=None):
    """make_input: optional factory returning a fresh delivery form of the text (a short-read stream) per call; positions
    are always checked against the text itself."""
    import yaml
    inp = make_input or (lambda: text)
    failures = []
    evals = 0
    info = {}
    li = ref_marks.LineIndex(text)
    for bname, L in backends():
        evals += 2
        tokens = None
        try:
            tokens = list(yaml.scan(inp(), Loader=L))
        except RecursionError:
            continue
        except yaml.YAMLError as e:
            msg = error_mark_msg(e, text, bname, li)
            if msg:
                failures.append(Failure("error-mark:%s:scan:%s" % (bname, exc_key(e)), msg))
            info[bname + ":scan"] = type(e).__name__
        except Exception as e:
            failures.append(Failure("scan-raised:%s:%s" % (bname, exc_key(e)), exc_msg(e)))
        events = None
        perr = None
        try:
            events = list(yaml.parse(inp(), Loader=L))
        except RecursionError:
            continue
        except yaml.YAMLError as e:
            perr = e
            msg = error_mark_msg(e, text, bname, li)
            if msg:
                failures.append(Failure("error-mark:%s:parse:%s" % (bname, exc_key(e)), msg))
            info[bname + ":parse"] = type(e).__name__
        except Exception as e:
            failures.append(Failure("parse-raised:%s:%s" % (bname, exc_key(e)), exc_msg(e)))
        if tokens is not None:
            info[bname + ":tokens"] = len(tokens)
            kinds = [rv.TOKEN_KIND[type(t).__name__] for t in tokens]
            msg = rv.token_block_balance(kinds)
            if msg:
                failures.append(Failure("token-brackets:%s" % bname, "%s; kinds=%s" % (msg, kinds[:40])))
            msg = check_marks(tokens, text, bname, li, "token")
            if msg:
                failures.append(Failure("token-mark:%s:%s" % (bname, msg.split("(")[1].split(")")[0] if "(" in msg else "?"), msg))
            if bname == "py":
                msg = check_slices(tokens, text)
                if msg:
                    failures.append(Failure("token-slice:%s" % bname, msg))
            if events is not None:
                ok, derived = rv.accept_tokens(kinds)
                if not ok:
                    failures.append(Failure("parses-but-tokens-ungrammatical:%s" % bname, "%s; kinds=%s" % (derived, kinds[:40])))
                else:
                    ek = [rv.EVENT_KIND[type(e).__name__] for e in events]
                    dk = [d[0] for d in derived]
                    if ek != dk:
                        failures.append(Failure("events-differ-from-grammar:%s:kinds" % bname, "parser %s\ngrammar %s" % (ek[:40], dk[:40])))
                    else:
                        for e, d in zip(events, derived):
                            if d[0] == "SC":
                                exp = tokens[d[1]].value if d[1] is not None else ""
                                if e.value != exp:
                                    failures.append(Failure("events-differ-from-grammar:%s:value" % bname, "scalar %r vs token %r" % (e.value, exp)))
                                    break
                            if d[0] in ("SC", "QS", "MS"):
                                exp = tokens[d[2]].value if d[2] is not None else None
                                if e.anchor != exp:
                                    failures.append(Failure("events-differ-from-grammar:%s:anchor" % bname, "anchor %r vs token %r" % (e.anchor, exp)))
                                    break
                            if d[0] == "AL" and e.anchor != tokens[d[1]].value:
                                failures.append(Failure("events-differ-from-grammar:%s:alias" % bname, "alias %r vs token %r" % (e.anchor, tokens[d[1]].value)))
                                break
        if events is not None:
            info[bname + ":events"] = len(events)
            ek = [rv.EVENT_KIND[type(e).__name__] for e in events]
            msg = rv.accept_events(ek)
            if msg:
                failures.append(Failure("event-grammar:%s" % bname, "%s; kinds=%s" % (msg, ek[:40])))
            msg = check_marks(events, text, bname, li, "event")
            if msg:
                failures.append(Failure("event-mark:%s:%s" % (bname, msg.split("(")[1].split(")")[0] if "(" in msg else "?"), msg))
    return failures, evals, info


def make_eval(label):
    def ev(text):
        failures, evals, info = run_text(text)
        cl = [label]
        nt = info.get("py:tokens", 0)
        if "py:scan" in info:
            cl.append("scan-error")
        elif "py:parse" in info:
            cl.append("scans-but-parse-error")
        else:
            cl.append("parses")
        nontrivial = nt >= 4 and any(c in text for c in "[{-:?|>\n")
        return Eval(failures, cl, nontrivial=nontrivial, ident=text, evals=evals, sample={"text": text[:300], "info": info})
    return ev


def eval_streamed(case):
    """The same checks with the text delivered through a short-read text stream: values and marks must not depend on
    where the reader refills its buffer (long names and scalars straddle the refill points)."""
    from checks.c07 import ChunkedText
    text, schedule, pad = case
    if pad:
        text = "# " + "p" * pad + "\n" + text
    failures, evals, info = run_text(text, make_input=lambda: ChunkedText(text, schedule))
    cl = ["streamed", "streamed:padded-to-refill-boundary" if pad else "streamed:short-reads"]
    return Eval(failures, cl, nontrivial=True, ident=(text, tuple(schedule)), evals=evals, sample={"text": text[-200:], "schedule": schedule, "pad": pad})


def eval_encoded(case):
    """The same checks with the text delivered as bytes (UTF-8 with or without BOM, UTF-16-LE/BE with BOM; whole or through a
    short-read byte stream).  The positions refer to the characters the reader decodes: a byte order mark is the character
    U+FEFF at index 0 (exactly as when the caller passes a str that starts with U+FEFF)."""
    import codecs
    from checks.c07 import ChunkedBytes
    text, enc, schedule = case
    if text[:1] == "\ufeff":
        text = text[1:]
    if enc == "utf-8":
        data, seen = text.encode("utf-8"), text
    elif enc == "utf-8-bom":
        data, seen = codecs.BOM_UTF8 + text.encode("utf-8"), "\ufeff" + text
    else:
        data, seen = (codecs.BOM_UTF16_LE if enc == "utf-16-le" else codecs.BOM_UTF16_BE) + text.encode(enc), "\ufeff" + text
    failures, evals, info = run_text(seen, make_input=(lambda: ChunkedBytes(data, schedule)) if schedule else (lambda: data))
    return Eval(failures, ["encoded:%s" % enc, "encoded:%s" % ("byte-stream" if schedule else "bytes")], nontrivial=True,
                ident=(text, enc, tuple(schedule or ())), evals=evals, sample={"text": text[-200:], "encoding": enc, "schedule": schedule})


def encoded_cases():
    body = st.one_of(gi.rendered_texts(2, 8), gi.mutated_texts().filter(lambda t: "\ufeff" not in t[1:] and all(ord(c) < 0xd800 or 0xe000 <= ord(c) for c in t)))
    sched = st.one_of(st.none(), st.none(), st.lists(st.sampled_from([1, 2, 3, 5, 64, 4096]), min_size=1, max_size=6))
    return st.tuples(body, st.sampled_from(["utf-8", "utf-8-bom", "utf-16-le", "utf-16-be", "utf-16-le", "utf-16-be"]), sched)


def streamed_cases():
    long_names = st.sampled_from(["- &anchor_with_a_long_name_%d [*anchor_with_a_long_name_%d, !!str &other_%d x, *other_%d]\n" % (i, i, i, i) for i in range(3)] +
                                 ["k: &a1 'single quoted scalar of some length' \n*a1 : \"double quoted\"\n", "? &k plain key of some length\n: !local-tag-name value text\n"])
    # ... and texts with a character the reader refuses, met in a later read()
    bad = st.tuples(gi.rendered_texts(2, 6), st.sampled_from(["\x07", "\x00", "\x1f", "\x7f", "\ufffe"]), st.integers(0, 400)).map(
        lambda t: t[0][:t[2] % (len(t[0]) + 1)] + t[1] + t[0][t[2] % (len(t[0]) + 1):])
    body = st.one_of(gi.rendered_texts(2, 8), long_names, bad, st.tuples(long_names, gi.rendered_texts(1, 6)).map(lambda t: t[0] + "--- " + t[1] if not t[1].startswith(("%", "\ufeff", "#")) else t[0]))
    sched = st.one_of(st.lists(st.sampled_from([1, 2, 3, 5, 7, 11, 64]), min_size=1, max_size=8), st.just([4096]))
    # pad so that the interesting part straddles the reader's refill points (8192 and every 4096 after)
    pad = st.sampled_from([0, 0, 4060, 4080, 4090, 8150, 8170, 8185, 12270, 12285])
    return st.tuples(body, sched, pad)


def enum_short(shard, nshards, tier):
    maxlen = 5 if tier == "thorough" else 4
    i = 0
    for n in range(0, maxlen + 1):
        for tup in itertools.product(ALPHABET, repeat=n):
            if i % nshards == shard:
                yield "".join(tup)
            i += 1


# ------------------------------------------------------------------------------------------------
# parser driven by a stub token source

STUB_KINDS = ["DIRY", "DIRT", "DS", "DE", "BSS", "BMS", "BE", "FSS", "FMS", "FSE", "FME", "BEN", "FEN", "KEY", "VAL", "ALI", "ANC",
              "TAGK", "TAGU", "SCA"]


def mk_token(kind, pos):
    from yaml import tokens as T
    from yaml.error import Mark
    m1 = Mark("<stub>", pos, 0, pos, None, None)
    m2 = Mark("<stub>", pos + 1, 0, pos + 1, None, None)
    if kind == "SS":
        return T.StreamStartToken(m1, m2)
    if kind == "SE":
        return T.StreamEndToken(m1, m2)
    if kind == "DIRY":
        return T.DirectiveToken("YAML", (1, 1), m1, m2)
    if kind == "DIRT":
        return T.DirectiveToken("TAG", ("!e!", "tag:e,1:"), m1, m2)
    if kind == "TAGK":
        return T.TagToken(("!!", "str"), m1, m2)
    if kind == "TAGU":
        return T.TagToken(("!u!", "x"), m1, m2)
    if kind == "ALI":
        return T.AliasToken("a", m1, m2)
    if kind == "ANC":
        return T.AnchorToken("a", m1, m2)
    if kind == "SCA":
        return T.ScalarToken("v", True, m1, m2)
    cls = {"DS": T.DocumentStartToken, "DE": T.DocumentEndToken, "BSS": T.BlockSequenceStartToken, "BMS": T.BlockMappingStartToken,
           "BE": T.BlockEndToken, "FSS": T.FlowSequenceStartToken, "FMS": T.FlowMappingStartToken, "FSE": T.FlowSequenceEndToken,
           "FME": T.FlowMappingEndToken, "BEN": T.BlockEntryToken, "FEN": T.FlowEntryToken, "KEY": T.KeyToken, "VAL": T.ValueToken}[kind]
    return cls(m1, m2)


_stub_cls = []


def stub_parser(tokens):
    from yaml.parser import Parser
    if not _stub_cls:
        class StubParser(Parser):
            def __init__(self, toks):
                Parser.__init__(self)
                self.toks = list(toks)

            def check_token(self, *choices):
                if self.toks:
                    if not choices:
                        return True
                    for c in choices:
                        if isinstance(self.toks[0], c):
                            return True
                return False

            def peek_token(self):
                return self.toks[0] if self.toks else None

            def get_token(self):
                return self.toks.pop(0) if self.toks else None
        _stub_cls.append(StubParser)
    return _stub_cls[0](tokens)


def grammar_kind(k):
    return {"DIRY": "DIR", "DIRT": "DIR", "TAGK": "TAG", "TAGU": "TAG"}.get(k, k)


def semantic_reject(seq):
    """Token sequences the grammar accepts but the parser must refuse for documented semantic reasons:
    duplicate %YAML / duplicate %TAG handle in one document, undefined tag handle."""
    ydir = tdir = 0
    for k in seq:
        if k == "DIRY":
            ydir += 1
        elif k == "DIRT":
            tdir += 1
        elif k == "DS":
            if ydir > 1 or tdir > 1:
                return True
            ydir = tdir = 0
    return "TAGU" in seq


def eval_stub(inner):
    import yaml
    seq = ["SS"] + list(inner) + ["SE"]
    toks = [mk_token(k, i) for i, k in enumerate(seq)]
    p = stub_parser(toks)
    failures = []
    events = None
    outcome = "ok"
    try:
        events = []
        while p.check_event():
            events.append(p.get_event())
            if len(events) > 10 * len(seq) + 10:
                failures.append(Failure("stub:parser-does-not-terminate", "more than %d events for %d tokens" % (len(events), len(seq))))
                break
    except yaml.parser.ParserError:
        outcome = "ParserError"
        events = None
    except RecursionError:
        raise
    except Exception as e:
        outcome = type(e).__name__
        events = None
        failures.append(Failure("stub:non-parser-error:%s" % exc_key(e), "%s; tokens=%s" % (exc_msg(e), seq)))
    ok, derived = rv.accept_tokens([grammar_kind(k) for k in seq])
    if events is not None and not failures:
        ek = [rv.EVENT_KIND[type(e).__name__] for e in events]
        msg = rv.accept_events(ek)
        if msg:
            failures.append(Failure("stub:event-grammar", "%s; tokens=%s events=%s" % (msg, seq, ek)))
        if not ok:
            failures.append(Failure("stub:accepted-ungrammatical-tokens", "%s; tokens=%s events=%s" % (derived, seq, ek)))
        elif [d[0] for d in derived] != ek:
            failures.append(Failure("stub:events-differ-from-grammar", "tokens=%s parser=%s grammar=%s" % (seq, ek, [d[0] for d in derived])))
        elif semantic_reject(seq):
            failures.append(Failure("stub:semantic-error-not-raised", "tokens=%s" % seq))
    if events is None and outcome == "ParserError":
        ok_strict, _ = rv.accept_tokens([grammar_kind(k) for k in seq], strict=True)
        if ok_strict and not semantic_reject(seq):
            failures.append(Failure("stub:rejects-grammatical-tokens", "tokens=%s" % seq))
    cl = ["stub:" + outcome, "stub:grammar-" + ("accepts" if ok else "rejects")]
    return Eval(failures, cl, nontrivial=len(inner) >= 2, ident=tuple(inner), evals=1, sample={"tokens": seq, "outcome": outcome})


def enum_stub(shard, nshards, tier):
    maxlen = 5 if tier == "thorough" else 4
    i = 0
    for n in range(0, maxlen + 1):
        for tup in itertools.product(STUB_KINDS, repeat=n):
            if i % nshards == shard:
                yield tup
            i += 1


def enum_limits(shard, nshards, tier):
    from checks import c06
    i = 0
    for shape in c06.LIMIT_SHAPES + ["[%s]: v\n", "{a: %s}: v\n", "? - %s\n: v\n", "- %s:\n- x\n", "%s: &a\n  - *a\n"]:
        for n in c06.LIMIT_LENGTHS:
            for fill in ("k", "\xe9", "k "):
                if i % nshards == shard:
                    body = (fill * n)[:n]
                    if body.endswith(" "):
                        body = body[:-1] + "k"
                    # the length that counts is the distance from the start of the key to its ':' - aim at it for every shape
                    for pad in (0, len(shape.split("%s")[0].lstrip("-? \n").replace("k:\n  ", ""))):
                        if pad and pad < n:
                            yield shape % body[pad:]
                        elif not pad:
                            yield shape % body
                i += 1


def arms(tier):
    return [
        Arm("valid", make_eval("valid"), lambda: gi.rendered_texts(3, 10), quick=6000, thorough=300000),
        Arm("mutated", make_eval("mutated"), lambda: gi.mutated_texts(), quick=8000, thorough=400000),
        Arm("productions", make_eval("production"), lambda: gi.productions(), quick=6000, thorough=300000),
        Arm("streamed", eval_streamed, streamed_cases, quick=2500, thorough=100000),
        Arm("encoded", eval_encoded, encoded_cases, quick=3000, thorough=120000),
        Arm("short-strings", make_eval("short"), enum=enum_short, exhaustive=True),
        # coverage-guided search (vlib/greybox.py) under the same token / event / position oracle
        Arm("greybox", make_eval("greybox"), enum=lambda s, ns, tier: greybox.campaign(
            s, ns, tier, PROPERTY, "greybox", quick=12000, thorough=1000000)),
        # names of every kind (keys of every form, anchors, tags, scalars) at and around the lengths where the scanner has a limit
        # (128 characters of key look-ahead in the emitter, 1024 for a simple key, 4096 for a reader block): same oracle
        Arm("limits", make_eval("limits"), enum=enum_limits, exhaustive=True),
        Arm("stub-tokens", eval_stub, enum=enum_stub, exhaustive=True),
        Arm("stub-random", eval_stub, lambda: st.lists(st.sampled_from(STUB_KINDS), min_size=5, max_size=14).map(tuple), quick=20000, thorough=1000000),
    ]


import re as _re


def known_class(arm, case, key):
    import yaml
    if isinstance(case, tuple) and case and isinstance(case[0], str) and arm in ("streamed", "encoded"):
        case = case[0]          # (text, schedule, pad) / (text, encoding, schedule): the findings below are about the text
    if not isinstance(case, str):
        return None
    if key.startswith(("scan-raised:c:UnicodeDecodeError", "parse-raised:c:UnicodeDecodeError")) and _re.search(r"%[0-9A-Fa-f]{2}", case):
        return "libyaml-bridge-unicodedecodeerror-on-invalid-utf8-uri-escape"
    if key == "parses-but-tokens-ungrammatical:c":
        try:
            kinds = [rv.TOKEN_KIND[type(t).__name__] for t in yaml.scan(case, Loader=yaml.CLoader)]
        except Exception:
            return None
        for i in range(len(kinds) - 2):
            if kinds[i:i + 3] == ["KEY", "FSE", "FSE"]:
                return "libyaml-parser-accepts-extra-flow-sequence-end-after-empty-key"
    return None


def pinned_known(key, rec):
    import yaml
    if not have_c():
        return False
    if key == "libyaml-bridge-unicodedecodeerror-on-invalid-utf8-uri-escape":
        try:
            list(yaml.scan("%TAG !e! tag:%ED%A0%80\n--- a\n", Loader=yaml.CLoader))
        except UnicodeDecodeError:
            return True
        except yaml.YAMLError:
            return False
        return False
    if key == "libyaml-parser-accepts-extra-flow-sequence-end-after-empty-key":
        try:
            list(yaml.parse("[?]]", Loader=yaml.CLoader))
            return True
        except yaml.YAMLError:
            return False
    return True
