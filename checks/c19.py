"""C19 - failures of the caller's stream or callbacks pass through cleanly."""
import io

from hypothesis import strategies as st

from vlib import gen_values as gv
from vlib.runner import Arm, Eval, Failure
from vlib.util import exc_key, exc_msg, have_c

PROPERTY = "C19"
LEVEL = "fault_enumeration"
RULE = ("Hypothesis-generated cases (value/event list + options + dumper for write faults; document text + read schedule + level + "
        "loader for read faults; documents whose nodes carry a user tag at root/item/value/key/set-member/omap positions + a user "
        "constructor or multi-constructor; values holding user-class instances + a user representer or multi-representer or a "
        "YAMLObject subclass) and, per case, EVERY fault index: the fault-free run counts the invocations of write / flush / read / "
        "the callback, then the run is repeated once per invocation index with a unique exception object raised at that index. "
        "Exception types: Exception subclass, TypeError, ValueError, KeyError, AttributeError, OSError, a BaseException subclass. "
        "Oracle: the object that reaches the caller IS the injected one (not wrapped, no YAML error); what was written before "
        "the fault is a prefix of the fault-free output; afterwards a fixed battery of dump/load calls on both back-ends AND "
        "a new call with the same loader/dumper class give their reference results and the digest of the package's "
        "module/class-level state is unchanged. Non-trivial = a fault index that is neither the first nor the last "
        "invocation; distinct = hash of (case, index).")
ASSUMPTIONS = [
    "faults are injected at call boundaries of the caller's object (write, flush, read, constructor, representer); a fault is a raised exception",
    "user classes with path resolvers are part of the corpus (their per-instance resolver stacks must not outlive a failed call)",
]


class Boom(Exception):
    pass


class Interrupt(BaseException):
    pass


def _decode_error(msg):
    return UnicodeDecodeError("utf-8", b"\xff", 0, 1, msg)


def _encode_error(msg):
    return UnicodeEncodeError("ascii", "\xe9", 0, 1, msg)


def _yaml_error(msg):
    import yaml
    return yaml.YAMLError(msg)


def _marked_error(msg):
    import yaml
    return yaml.scanner.ScannerError(None, None, msg, None)


def _representer_error(msg):
    import yaml
    return yaml.representer.RepresenterError(msg)


def _representer_error2(msg):
    import yaml
    return yaml.representer.RepresenterError(msg, {"detail": [1, 2]})


def _constructor_error(msg):
    import yaml
    return yaml.constructor.ConstructorError("while doing the caller's work", None, msg, None)


def _emitter_error(msg):
    import yaml
    return yaml.emitter.EmitterError(msg)


def _reader_error(msg):
    import yaml
    return yaml.reader.ReaderError("<caller>", 3, 0x7, "caller-codec", msg)


class Detailed(Exception):
    """a caller's exception that carries state of its own"""

    def __init__(self, msg):
        super().__init__(msg)
        self.detail = {"code": 17, "path": ["a", 0]}
        self.add_note("note attached by the caller")


for _f, _n in ((_representer_error, "RepresenterError"), (_representer_error2, "RepresenterError2"), (_constructor_error, "ConstructorError"),
               (_emitter_error, "EmitterError"), (_reader_error, "ReaderError")):
    _f.__name__ = _n
_decode_error.__name__ = "UnicodeDecodeError"
_encode_error.__name__ = "UnicodeEncodeError"
_yaml_error.__name__ = "YAMLError"
_marked_error.__name__ = "ScannerError"
# exception factories: the caller's own exceptions, incl. the types the library itself catches or raises internally
EXC_TYPES = [Boom, TypeError, ValueError, KeyError, AttributeError, OSError, Interrupt, IndexError, RuntimeError,
             _decode_error, _encode_error, _yaml_error, _marked_error, UnicodeError, LookupError, MemoryError, EOFError,
             _representer_error, _representer_error2, _constructor_error, _emitter_error, _reader_error, Detailed]

_snaps = {}


def _snapshot(e):
    try:
        text = str(e)
    except Exception as x:
        text = "str() raised %s" % type(x).__name__
    return (type(e), repr(e.args), text, repr(sorted((k, repr(v)) for k, v in vars(e).items())))


def make_exc(exc_type, msg):
    """The caller's exception, with a snapshot of what it looked like when it was raised."""
    e = exc_type(msg)
    _snaps.clear()
    _snaps[id(e)] = (e, _snapshot(e))
    return e


def altered(e):
    """'reaches the caller unchanged': same object AND same type / args / text / attributes as when it was raised."""
    rec = _snaps.get(id(e))
    if rec is None or rec[0] is not e:
        return None
    now = _snapshot(e)
    if now != rec[1]:
        return "raised as %r, arrived as %r" % (rec[1][1:], now[1:])
    return None


class StreamStaysBroken(OSError):
    pass


class FaultyWriter:
    def __init__(self, fail_at, exc_type, binary, with_flush, sticky=None):
        self.n = 0
        self.sticky = bool(fail_at % 2) if sticky is None else sticky
        self.fail_at = fail_at
        self.exc_type = exc_type
        self.exc = None
        self.chunks = []
        self.binary = binary
        if with_flush:
            self.flush = self._flush

    def _tick(self):
        self.n += 1
        if self.exc is not None and self.sticky:
            # a broken stream stays broken (every other fault position): whatever the library still asks of it fails too,
            # with an exception that is NOT the injected one
            raise StreamStaysBroken("the stream failed earlier (call %d after the fault at %d)" % (self.n - self.fail_at, self.fail_at))
        if self.n == self.fail_at:
            self.exc = make_exc(self.exc_type, "injected fault #%d" % self.n)
            raise self.exc

    def write(self, data):
        self._tick()
        self.chunks.append(data)

    def _flush(self):
        self._tick()

    def value(self):
        return (b"" if self.binary else "").join(self.chunks)


class FaultyReader:
    def __init__(self, data, schedule, fail_at, exc_type):
        self.data = data
        self.pos = 0
        self.schedule = schedule
        self.n = 0
        self.fail_at = fail_at
        self.exc_type = exc_type
        self.exc = None

    def read(self, size=-1):
        self.n += 1
        if self.exc is not None and self.fail_at % 2:
            raise StreamStaysBroken("the stream failed earlier (call %d after the fault at %d)" % (self.n - self.fail_at, self.fail_at))
        if self.n == self.fail_at:
            self.exc = make_exc(self.exc_type, "injected fault #%d" % self.n)
            raise self.exc
        if size is None or size < 0:
            size = len(self.data)
        k = self.schedule[min(self.n - 1, len(self.schedule) - 1)]
        size = min(size, max(1, k))
        out = self.data[self.pos:self.pos + size]
        self.pos += len(out)
        return out


_ctx = {}


def fault_indices(total, limit=250):
    """Every index when the run has at most `limit` invocations, else the first 80, the last 80 and an even sample between."""
    if total <= limit:
        return list(range(1, total + 1))
    mid = limit - 160
    step = max(1, (total - 160) // mid)
    return sorted(set(list(range(1, 81)) + list(range(81, total - 79, step)) + list(range(total - 79, total + 1))))


def context():
    """Per worker: user classes with path resolvers, the reference battery, the state digest."""
    if _ctx:
        return _ctx
    import yaml
    from vlib import c11_pool
    PathLoader = type("PathLoader", (yaml.SafeLoader,), {})
    PathLoader.add_path_resolver("!at-a", ["a"], dict)
    PathLoader.add_path_resolver("!item", [None], str)
    PathDumper = type("PathDumper", (yaml.SafeDumper,), {})
    PathDumper.add_path_resolver("!at-a", ["a"], dict)
    PathLoader.add_constructor("!at-a", lambda l, n: l.construct_mapping(n))
    PathLoader.add_constructor("!item", lambda l, n: l.construct_scalar(n))
    _ctx.update(yaml=yaml, pool=c11_pool, PathLoader=PathLoader, PathDumper=PathDumper)
    _ctx["battery_ref"] = battery()
    _ctx["digest"] = c11_pool.fingerprint(yaml)
    return _ctx


def battery():
    c = _ctx
    yaml = c["yaml"]
    out = []
    v = {"a": {"k": [1, 2.5, "x"]}, "b": "caf\xe9", "c": [None, True]}
    text = "a: {k: [1, 2.5, x]}\nb: [*nope]\n"
    for D in [yaml.SafeDumper, c["PathDumper"]] + ([yaml.CSafeDumper] if have_c() else []):
        out.append(yaml.dump(v, Dumper=D))
        s = io.StringIO()
        yaml.dump(v, s, Dumper=D)
        out.append(s.getvalue())
    for L in [yaml.SafeLoader, c["PathLoader"]] + ([yaml.CSafeLoader] if have_c() else []):
        out.append(repr(yaml.load("a: {k: [1, 2.5, x]}\nb: [y]\n", Loader=L)))
        out.append(repr(yaml.load(io.StringIO("a: {k: 1}\n"), Loader=L)))
        try:
            yaml.load(text, Loader=L)
            out.append("no error")
        except yaml.YAMLError as e:
            out.append(type(e).__name__)
    return out


def after_fault(failures, what):
    c = _ctx
    try:
        b = battery()
    except BaseException as e:
        failures.append(Failure("library-unusable-after-fault:%s:%s" % (what, exc_key(e)), exc_msg(e)))
        return
    if b != c["battery_ref"]:
        k = [i for i, (x, y) in enumerate(zip(b, c["battery_ref"])) if x != y]
        failures.append(Failure("next-call-differs-after-fault:%s" % what, "battery items %r differ: %.200r vs %.200r" % (
            k[:3], b[k[0]] if k else None, c["battery_ref"][k[0]] if k else None)))
    if c["pool"].fingerprint(c["yaml"]) != c["digest"]:
        failures.append(Failure("global-state-changed-after-fault:%s" % what, "digest of module/class-level state changed"))
        c["digest"] = c["pool"].fingerprint(c["yaml"])      # report once


# ------------------------------------------------------------------------------------------------
# write faults

def dump_call(yaml, api, payload, stream, D, opts):
    if api == "dump_all":
        return yaml.dump_all(payload, stream, Dumper=D, **opts)
    if api == "emit":
        return yaml.emit(payload(), stream, Dumper=D, **{k: v for k, v in opts.items() if k in ("canonical", "indent", "width", "allow_unicode", "line_break")})
    return yaml.serialize_all(payload, stream, Dumper=D, **{k: v for k, v in opts.items() if k not in ("default_style", "default_flow_style", "sort_keys")})


def eval_write(case):
    c = context()
    yaml = c["yaml"]
    bps, opts, dname, api, exc_i, with_flush = case
    D = {"SafeDumper": yaml.SafeDumper, "PathDumper": c["PathDumper"], "CSafeDumper": getattr(yaml, "CSafeDumper", yaml.SafeDumper),
         "Dumper": yaml.Dumper, "CDumper": getattr(yaml, "CDumper", yaml.Dumper)}[dname]
    exc_type = EXC_TYPES[exc_i % len(EXC_TYPES)]
    docs = [gv.build(bp)[0] for bp in bps]
    binary = bool(opts.get("encoding")) and api != "emit"
    if api == "emit":
        from vlib import gen_events as ge
        # event lists are rebuilt for every run (events are consumed)
        stream_spec = [{"version": None, "tags": None, "explicit_start": False, "explicit_end": False,
                        "root": ("seq", False, None, True, None, [("scalar", False, None, (True, True), repr(d)[:200], None) for d in docs] or [])}]
        payload = lambda: ge.build_events(stream_spec)
    elif api == "serialize_all":
        try:
            payload = [yaml.compose(yaml.safe_dump(d)) for d in docs]
        except yaml.YAMLError:
            payload = [yaml.compose("a: [b, c]")]
    else:
        payload = docs
    cl = {"write-fault", "api:%s" % api, "dumper:%s" % dname, "exc:%s" % exc_type.__name__}
    failures = []
    w0 = FaultyWriter(0, exc_type, binary, with_flush)
    try:
        dump_call(yaml, api, payload, w0, D, opts)
    except Exception as e:
        # the fault-free run itself fails (e.g. unrepresentable under these options): nothing to enumerate
        return Eval([], sorted(cl | {"fault-free-run-raises"}), nontrivial=False, ident=repr(case), evals=1)
    total = w0.n
    full = w0.value()
    evals = 1
    nt = 0
    idents = []
    for j in fault_indices(total):
        evals += 1
        w = FaultyWriter(j, exc_type, binary, with_flush)
        try:
            dump_call(yaml, api, payload, w, D, opts)
            failures.append(Failure("fault-swallowed:write:%s" % dname, "fault at invocation %d of %d did not reach the caller" % (j, total)))
        except BaseException as e:
            if e is not w.exc:
                failures.append(Failure("fault-replaced:write:%s:%s" % (dname, type(e).__name__),
                                        "raised %r, injected %r (invocation %d of %d)" % (e, w.exc, j, total)))
            elif e.__cause__ is not None:
                failures.append(Failure("fault-chained:write:%s" % dname, "cause %r" % e.__cause__))
            elif altered(e):
                failures.append(Failure("fault-altered:write:%s:%s" % (dname, type(e).__name__), altered(e)))
        if not full.startswith(w.value()):
            failures.append(Failure("written-data-not-a-prefix:%s" % dname, "fault at %d: %.80r ... vs %.80r" % (j, w.value()[-80:], full[:80])))
        if 1 < j < total:
            nt += 1
        if failures:
            break
    # the caller repairs the stream (a transient fault) and dumps again to the SAME stream object: what is appended is what a
    # dump to a fresh stream writes - nothing about the stream was remembered from the failed call
    for j in sorted({1, 2, 3, max(1, total // 2), total}) if not failures else ():
        if j > total:
            continue
        evals += 2
        w = FaultyWriter(j, exc_type, binary, with_flush, sticky=False)
        try:
            dump_call(yaml, api, payload, w, D, opts)
        except BaseException:
            pass
        before = w.value()
        try:
            dump_call(yaml, api, payload, w, D, opts)
        except BaseException as e:
            failures.append(Failure("retry-on-same-stream-raises:%s:%s" % (dname, exc_key(e)), "after a fault at invocation %d of %d: %s" % (j, total, exc_msg(e))))
            break
        if w.value() != before + full:
            failures.append(Failure("retry-on-same-stream-differs:%s" % dname, "after a fault at invocation %d of %d the second dump appended %.80r, a fresh stream gets %.80r" % (
                j, total, w.value()[len(before):][:80], full[:80])))
            break
        cl.add("retry-on-same-stream")
    after_fault(failures, "write:%s" % dname)
    if total >= 3:
        cl.add("invocations>=3")
    cl.add("all-indices" if total <= 250 else "sampled-indices(>250-invocations)")
    return Eval(failures, sorted(cl), nontrivial=nt > 0, ident=(repr(case)), evals=evals,
                sample={"api": api, "dumper": dname, "options": repr(opts), "invocations": total, "exception": exc_type.__name__})


def write_cases():
    opts = st.fixed_dictionaries({}, optional={
        "default_flow_style": st.sampled_from([True, False, None]), "canonical": st.sampled_from([None, True]),
        "width": st.sampled_from([None, 10, 80]), "allow_unicode": st.sampled_from([None, True]),
        "encoding": st.sampled_from([None, "utf-8", "utf-16-le", "utf-16-be"]), "explicit_start": st.sampled_from([None, True]),
        "explicit_end": st.sampled_from([None, True]), "default_style": st.sampled_from([None, '"', "|"])})
    def lists(sizes):
        return st.sampled_from(sizes).map(lambda n: ("l", [("s", "item %d with some text" % i) for i in range(n)]))
    # the pure-Python emitter writes once per token: small values already give dozens of invocations; the LibYAML emitter
    # flushes its 16 KB buffer, so it gets values large enough for several flushes
    py = st.tuples(st.lists(st.one_of(gv.blueprints(max_leaves=10), gv.blueprints(max_leaves=10), lists([10, 30])), min_size=1, max_size=3), opts,
                   st.sampled_from(["SafeDumper", "SafeDumper", "PathDumper", "Dumper"]),
                   st.sampled_from(["dump_all", "dump_all", "emit", "serialize_all"]), st.integers(0, 229), st.booleans())
    c = st.tuples(st.lists(st.one_of(gv.blueprints(max_leaves=10), lists([30, 2500, 6000])), min_size=1, max_size=3), opts,
                  st.sampled_from(["CSafeDumper", "CDumper"]),
                  st.sampled_from(["dump_all", "dump_all", "emit", "serialize_all"]), st.integers(0, 229), st.booleans())
    return st.one_of(py, py, c)


# ------------------------------------------------------------------------------------------------
# read faults

LEVELS = ["load", "load_all", "scan", "parse", "compose", "compose_all"]


def read_call(yaml, level, L, stream):
    if level == "load":
        return yaml.load(stream, Loader=L)
    if level == "compose":
        return yaml.compose(stream, Loader=L)
    fn = {"load_all": yaml.load_all, "scan": yaml.scan, "parse": yaml.parse, "compose_all": yaml.compose_all}[level]
    return list(fn(stream, Loader=L))


def eval_read(case):
    c = context()
    yaml = c["yaml"]
    n, pad, lname, level, schedule, exc_i, as_bytes = case
    L = {"SafeLoader": yaml.SafeLoader, "PathLoader": c["PathLoader"], "CSafeLoader": getattr(yaml, "CSafeLoader", yaml.SafeLoader),
         "Loader": yaml.Loader, "CLoader": getattr(yaml, "CLoader", yaml.Loader)}[lname]
    exc_type = EXC_TYPES[exc_i % len(EXC_TYPES)]
    text = "a: {k: [1, 2]}\nitems:\n" + "".join("- {name: item%d, v: %s}\n" % (i, "x" * pad) for i in range(n))
    if level in ("load_all", "compose_all", "scan", "parse"):
        text += "--- second\n--- [third]\n"
    data = text.encode("utf-8") if as_bytes else text
    # keep the number of read() invocations (and so of fault indices) bounded: small pieces only for small inputs
    floor = max(1, len(data) // 150)
    schedule = [max(k, floor) for k in schedule]
    cl = {"read-fault", "level:%s" % level, "loader:%s" % lname, "exc:%s" % exc_type.__name__}
    failures = []
    r0 = FaultyReader(data, schedule, 0, exc_type)
    try:
        read_call(yaml, level, L, r0)
    except Exception as e:
        raise AssertionError("fault-free read failed: %r" % e)
    total = r0.n
    evals = 1
    nt = 0
    for j in fault_indices(total):
        evals += 1
        r = FaultyReader(data, schedule, j, exc_type)
        try:
            read_call(yaml, level, L, r)
            failures.append(Failure("fault-swallowed:read:%s" % lname, "fault at read() #%d of %d did not reach the caller" % (j, total)))
        except BaseException as e:
            if e is not r.exc:
                failures.append(Failure("fault-replaced:read:%s:%s" % (lname, type(e).__name__),
                                        "raised %r, injected %r (read #%d of %d)" % (e, r.exc, j, total)))
            elif e.__cause__ is not None:
                failures.append(Failure("fault-chained:read:%s" % lname, "cause %r" % e.__cause__))
            elif altered(e):
                failures.append(Failure("fault-altered:read:%s:%s" % (lname, type(e).__name__), altered(e)))
        if 1 < j < total:
            nt += 1
        if failures:
            break
    after_fault(failures, "read:%s" % lname)
    if total >= 3:
        cl.add("invocations>=3")
    return Eval(failures, sorted(cl), nontrivial=nt > 0, ident=repr(case), evals=evals,
                sample={"level": level, "loader": lname, "chars": len(text), "reads": total, "exception": exc_type.__name__})


def read_cases():
    sched = st.one_of(st.just([4096]), st.lists(st.sampled_from([1, 7, 100, 1000, 4096, 5000]), min_size=1, max_size=6))
    return st.tuples(st.sampled_from([0, 3, 20, 60, 150]), st.sampled_from([1, 10, 60]),
                     st.sampled_from(["SafeLoader", "SafeLoader", "PathLoader", "CSafeLoader", "Loader", "CLoader"]),
                     st.sampled_from(LEVELS), sched, st.integers(0, 229), st.booleans())


# ------------------------------------------------------------------------------------------------
# callback faults: constructors

POSITIONS = ["root", "item", "value", "key", "set-member", "omap-key", "omap-value", "nested", "merge-value", "anchored-twice"]


def ctor_doc(positions, kind):
    """A document with one user-tagged node per requested position."""
    tag = "!cb" if kind != "multi" else "!cbm/x"
    parts = []
    for i, p in enumerate(positions):
        t = "%s n%d" % (tag, i)
        if p == "root":
            parts.append("r%d: %s" % (i, t))
        elif p == "item":
            parts.append("i%d: [a, %s, b]" % (i, t))
        elif p == "value":
            parts.append("v%d: {k: %s}" % (i, t))
        elif p == "key":
            parts.append("k%d: {? %s : v}" % (i, t))
        elif p == "set-member":
            parts.append("s%d: !!set {? %s, ? other}" % (i, t))
        elif p == "omap-key":
            parts.append("o%d: !!omap [{? %s : v}]" % (i, t))
        elif p == "omap-value":
            parts.append("p%d: !!pairs [{k: %s}]" % (i, t))
        elif p == "nested":
            parts.append("n%d: [[{a: [%s]}]]" % (i, t))
        elif p == "merge-value":
            parts.append("m%d: {<<: {mk: %s}, own: 1}" % (i, t))
        elif p == "anchored-twice":
            parts.append("t%d: [&x%d %s, *x%d]" % (i, i, t, i))
    return "{" + ", ".join(parts) + "}\n"


def eval_ctor(case):
    c = context()
    yaml = c["yaml"]
    positions, kind, base, exc_i = case
    exc_type = EXC_TYPES[exc_i % len(EXC_TYPES)]
    Base = {"SafeLoader": yaml.SafeLoader, "PathLoader": c["PathLoader"], "CSafeLoader": getattr(yaml, "CSafeLoader", yaml.SafeLoader),
            "FullLoader": yaml.FullLoader}[base]
    text = ctor_doc(positions, kind)
    cl = {"constructor-fault", "ctor:%s" % kind, "loader:%s" % base, "exc:%s" % exc_type.__name__} | {"at:%s" % p for p in positions}
    failures = []
    state = {"n": 0, "fail_at": 0, "exc": None}

    def tick():
        state["n"] += 1
        if state["n"] == state["fail_at"]:
            state["exc"] = make_exc(exc_type, "injected fault in callback #%d" % state["n"])
            raise state["exc"]

    if kind == "plain":
        L = type("CbLoader", (Base,), {})
        L.add_constructor("!cb", lambda loader, node: (tick(), "built:" + loader.construct_scalar(node))[1])
    elif kind == "multi":
        L = type("CbLoader", (Base,), {})
        L.add_multi_constructor("!cbm/", lambda loader, suffix, node: (tick(), "built:" + loader.construct_scalar(node))[1])
    else:
        L = type("CbLoader", (Base,), {})

        class Obj(yaml.YAMLObject):
            yaml_tag = "!cb"
            yaml_loader = L
            yaml_dumper = type("PrivateDumper", (yaml.SafeDumper,), {})     # never register on a shipped class

            @classmethod
            def from_yaml(cls, loader, node):
                tick()
                return "built:" + loader.construct_scalar(node)
    state["n"] = 0
    try:
        ref = yaml.load(text, Loader=L)
    except Exception as e:
        raise AssertionError("fault-free load failed: %r on %r" % (e, text))
    total = state["n"]
    evals = 1
    nt = 0
    for j in range(1, total + 1):
        evals += 1
        state.update(n=0, fail_at=j, exc=None)
        try:
            yaml.load(text, Loader=L)
            failures.append(Failure("fault-swallowed:constructor:%s" % kind, "fault at callback #%d of %d did not reach the caller" % (j, total)))
        except BaseException as e:
            if e is not state["exc"]:
                pos = positions[j - 1] if j - 1 < len(positions) else "?"
                failures.append(Failure("fault-replaced:constructor:%s:%s" % (kind, type(e).__name__),
                                        "raised %s, injected %r at callback #%d of %d (position %s)\ntext=%r" % (exc_msg(e), state["exc"], j, total, pos, text)))
            elif e.__cause__ is not None:
                failures.append(Failure("fault-chained:constructor:%s" % kind, "cause %r" % e.__cause__))
            elif altered(e):
                failures.append(Failure("fault-altered:constructor:%s:%s" % (kind, type(e).__name__), altered(e)))
        if 1 < j < total:
            nt += 1
        if failures:
            break
    state.update(n=0, fail_at=0)
    try:
        again = yaml.load(text, Loader=L)
        if repr(again) != repr(ref):
            failures.append(Failure("same-class-differs-after-fault:constructor", "%.100r vs %.100r" % (again, ref)))
    except BaseException as e:
        failures.append(Failure("same-class-unusable-after-fault:constructor:%s" % exc_key(e), exc_msg(e)))
    after_fault(failures, "constructor")
    return Eval(failures, sorted(cl), nontrivial=nt > 0, ident=repr(case), evals=evals,
                sample={"text": text[:200], "kind": kind, "callbacks": total, "exception": exc_type.__name__})


def ctor_cases():
    return st.tuples(st.lists(st.sampled_from(POSITIONS), min_size=1, max_size=6), st.sampled_from(["plain", "multi", "yamlobject"]),
                     st.sampled_from(["SafeLoader", "PathLoader", "CSafeLoader", "FullLoader"]), st.integers(0, 229))


# ------------------------------------------------------------------------------------------------
# callback faults: representers

def eval_repr(case):
    c = context()
    yaml = c["yaml"]
    shape, kind, base, exc_i, opts = case
    exc_type = EXC_TYPES[exc_i % len(EXC_TYPES)]
    Base = {"SafeDumper": yaml.SafeDumper, "PathDumper": c["PathDumper"], "CSafeDumper": getattr(yaml, "CSafeDumper", yaml.SafeDumper),
            "Dumper": yaml.Dumper}[base]
    cl = {"representer-fault", "repr:%s" % kind, "dumper:%s" % base, "exc:%s" % exc_type.__name__}
    failures = []
    state = {"n": 0, "fail_at": 0, "exc": None}

    def tick():
        state["n"] += 1
        if state["n"] == state["fail_at"]:
            state["exc"] = make_exc(exc_type, "injected fault in callback #%d" % state["n"])
            raise state["exc"]

    D = type("CbDumper", (Base,), {})

    class Thing:
        def __init__(self, i):
            self.i = i

        def __hash__(self):
            return hash(self.i)

        def __eq__(self, o):
            return isinstance(o, Thing) and o.i == self.i

        def __lt__(self, o):
            return self.i < o.i if hasattr(o, "i") else NotImplemented

    class Sub(Thing):
        pass

    def rep(dumper, data):
        tick()
        return dumper.represent_scalar("!thing", str(data.i))
    if kind == "plain":
        D.add_representer(Thing, rep)
        D.add_representer(Sub, rep)
    elif kind == "multi":
        D.add_multi_representer(Thing, rep)
    else:
        class YThing(yaml.YAMLObject):
            yaml_tag = "!ything"
            yaml_dumper = D
            yaml_loader = type("PrivateLoader", (yaml.SafeLoader,), {})     # never register on a shipped class

            def __init__(self, i):
                self.i = i

            def __hash__(self):
                return hash(self.i)

            @classmethod
            def to_yaml(cls, dumper, data):
                tick()
                return dumper.represent_scalar("!ything", str(data.i))
        Thing = YThing
        Sub = YThing
    objs = [Thing(0), Sub(1), Thing(2), Sub(3), Thing(4)]
    value = {"list": [objs[0], "a", objs[1]], "map": {"k": objs[2], objs[3]: "as key"}, "nested": [[{"x": [objs[4]]}]], "again": objs[0]}
    if shape % 3 == 1:
        value = [objs[0], {objs[1]: objs[2]}, {objs[3]}, objs[4]]
    elif shape % 3 == 2:
        value = [value, [o for o in objs]]
    kw = dict(opts)
    # several documents: a callback may fail in a later document, after earlier ones were written completely; the
    # documents before it have an open-ended root (plain scalar, keep-chomped block scalar) or a collection root
    first = [["plain root"], ["text\n\n"], [{"a": 1}], []][shape % 4]
    docs = first + [value] + ([objs[0]] if shape % 2 else [])

    def do_dump(stream):
        return yaml.dump_all(docs, stream, Dumper=D, **kw)
    state["n"] = 0
    w0 = FaultyWriter(0, exc_type, False, False)
    try:
        do_dump(w0)
    except Exception as e:
        raise AssertionError("fault-free dump failed: %r" % e)
    total = state["n"]
    full = w0.value()
    evals = 1
    nt = 0
    for j in range(1, total + 1):
        evals += 1
        state.update(n=0, fail_at=j, exc=None)
        w = FaultyWriter(0, exc_type, False, False)
        try:
            do_dump(w)
            failures.append(Failure("fault-swallowed:representer:%s" % kind, "fault at callback #%d of %d did not reach the caller" % (j, total)))
        except BaseException as e:
            if e is not state["exc"]:
                failures.append(Failure("fault-replaced:representer:%s:%s" % (kind, type(e).__name__),
                                        "raised %s, injected %r at callback #%d of %d" % (exc_msg(e), state["exc"], j, total)))
            elif altered(e):
                failures.append(Failure("fault-altered:representer:%s:%s" % (kind, type(e).__name__), altered(e)))
        if not full.startswith(w.value()):
            failures.append(Failure("written-data-not-a-prefix:representer", "fault at %d: %.80r vs %.80r" % (j, w.value()[-80:], full[:80])))
        if 1 < j < total:
            nt += 1
        if failures:
            break
    state.update(n=0, fail_at=0)
    try:
        if yaml.dump_all(docs, Dumper=D, **kw) != full:
            failures.append(Failure("same-class-differs-after-fault:representer", ""))
    except BaseException as e:
        failures.append(Failure("same-class-unusable-after-fault:representer:%s" % exc_key(e), exc_msg(e)))
    after_fault(failures, "representer")
    return Eval(failures, sorted(cl), nontrivial=nt > 0, ident=repr(case), evals=evals,
                sample={"kind": kind, "dumper": base, "callbacks": total, "exception": exc_type.__name__})


def repr_cases():
    opts = st.fixed_dictionaries({}, optional={"default_flow_style": st.sampled_from([True, False]), "canonical": st.just(True),
                                               "sort_keys": st.booleans(), "explicit_start": st.just(True)})
    return st.tuples(st.integers(0, 5), st.sampled_from(["plain", "multi", "yamlobject"]),
                     st.sampled_from(["SafeDumper", "PathDumper", "CSafeDumper", "Dumper"]), st.integers(0, 229), opts)


def arms(tier):
    return [Arm("write", eval_write, write_cases, quick=700, thorough=10000),
            Arm("read", eval_read, read_cases, quick=700, thorough=10000),
            Arm("constructor", eval_ctor, ctor_cases, quick=1200, thorough=20000),
            Arm("representer", eval_repr, repr_cases, quick=800, thorough=15000)]


REQUIRED_CLASSES = ["retry-on-same-stream", "exc:RepresenterError", "exc:Detailed", "write-fault", "read-fault", "constructor-fault", "representer-fault", "invocations>=3", "at:key", "at:set-member",
                    "exc:TypeError", "exc:Interrupt", "exc:OSError", "exc:UnicodeDecodeError", "exc:YAMLError", "dumper:CSafeDumper", "loader:CSafeLoader", "loader:PathLoader", "dumper:PathDumper"]
