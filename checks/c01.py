"""C01 - safe loading is confined to plain data, for every document."""
import datetime
import io
import os

from hypothesis import strategies as st

from vlib import safety
from vlib.runner import Arm, Eval, Failure, REPO
from vlib.util import exc_key, exc_msg, have_c

PROPERTY = "C01"
LEVEL = "exploration"
RULE = ("Hypothesis-generated abstract documents whose tag slots are filled from a vocabulary of every python/* tag form "
        "(shorthand, verbatim, via %TAG handle, via a redefined '!!') x a catalogue of names (canary modules that record any "
        "call/instantiation/attribute write, an unimported canary module and package, os.system, subprocess.Popen, eval, exec, "
        "open, __import__, garbled names) plus every tag registered on any constructor class of the library, on scalar/"
        "sequence/mapping nodes at root/item/value/key/set-member/omap/pairs/merge/'=' positions with anchors and aliases; "
        "loaded by safe_load(_all), SafeLoader, CSafeLoader, BaseLoader, CBaseLoader from str and bytes. Oracle: (a) outcome is "
        "a return or a YAMLError; (b) the result graph has only the allowed exact types; (c) monitors: no import/exec/"
        "compile/open/os.system/... audit event, sys.modules unchanged, no Python call outside lib/yaml + stdlib, no call "
        "of any named object, no canary record; (d) Safe loaders: a non-core tag at a dispatched position => ConstructorError; "
        "(e) the effective constructor tables are exactly the 12 core tags + None. Non-trivial = a non-core tag at a "
        "dispatched position naming something for which some class of the library has a constructor; distinct = hash of text.")
ASSUMPTIONS = [
    "BaseLoader/CBaseLoader ignore tags by design (documented); clauses (a)-(c) and the {str, list, dict} type set apply to them",
    "nodes the constructor consumes structurally (merge sources, merge lists, omap/pairs entry mappings, targets of '=') are "
    "not dispatched on their tag: a foreign tag there is ignored, never acted on - this is the listed known finding "
    "tag-ignored-on-structurally-consumed-node, decided by the position predicate of the generator",
    "explicit '!!merge' / '!!value' tags (resolver-only tags, meaningful in key position) are not generated; plain '<<' and '=' are",
    "monitors see Python-level calls (sys.setprofile) and audit events; work inside a C function that raises no audit event is invisible",
]

SAFE_TYPES = (type(None), bool, int, float, str, bytes, datetime.date, datetime.datetime, list, dict, set)
BASE_TYPES = (str, list, dict)


def loader_legs():
    import yaml
    legs = [("safe_load", None, True), ("SafeLoader", yaml.SafeLoader, True), ("BaseLoader", yaml.BaseLoader, False)]
    if have_c():
        legs += [("CSafeLoader", yaml.CSafeLoader, True), ("CBaseLoader", yaml.CBaseLoader, False)]
    return legs


def walk_result(obj, allowed):
    """None when every reachable object has an allowed exact type (2-tuples directly inside lists allowed), else a message."""
    seen = set()
    stack = [(obj, False)]
    while stack:
        x, in_list = stack.pop()
        t = type(x)
        if t is tuple and in_list and len(x) == 2 and tuple in ALLOW_PAIR.get(allowed, ()):
            stack.append((x[0], False))
            stack.append((x[1], False))
            continue
        if t not in allowed:
            return "object of type %s.%s in the result: %.80r" % (t.__module__, t.__qualname__, x)
        if t in (list, dict, set):
            if id(x) in seen:
                continue
            seen.add(id(x))
            if t is dict:
                for k, v in x.items():
                    stack.append((k, False))
                    stack.append((v, False))
            else:
                for i in x:
                    stack.append((i, t is list))
    return None


ALLOW_PAIR = {SAFE_TYPES: (tuple,), BASE_TYPES: ()}

_named = {}


def get_monitor():
    import yaml
    safety.install()
    if not _named:
        _named.update(safety.resolve_named_objects())
    return safety.Monitor(os.path.dirname(yaml.__file__), _named)


class _AppValue:
    """what the application's constructors registered through the module-level helpers build"""


APP_D_VALUE = _AppValue()


def _warm():
    """Load benign inputs in every form once so that lazy codec imports happen before the monitors are armed."""
    import yaml
    if getattr(_warm, "done", False):
        return
    for L in [yaml.SafeLoader, yaml.BaseLoader] + ([yaml.CSafeLoader, yaml.CBaseLoader] if have_c() else []):
        for data in ["a: [1, 2.5, 2001-01-01, 2001-01-01 10:00:00+01:00, !!binary YQ==, !!set {a}, !!omap [a: 1]]",
                     "a: 1".encode("utf-8"), "\ufeffa: 1".encode("utf-16-le"), "a: é".encode("utf-16-be"), io.StringIO("a: 1"), io.BytesIO(b"a: 1")]:
            try:
                yaml.load(data, Loader=L)
            except yaml.YAMLError:
                pass
    try:
        yaml.safe_load("!!timestamp 2001-13-01")
    except yaml.YAMLError:
        pass
    # a caller customises private subclasses of the safe and base loaders (in both orders of the two registration kinds):
    # the shipped classes must stay confined - the generated documents use these tags too
    for Base in [yaml.SafeLoader, yaml.BaseLoader] + ([yaml.CSafeLoader, yaml.CBaseLoader] if have_c() else []):
        A = type("AppLoaderA", (Base,), {})
        A.add_multi_constructor("!app-m/", lambda loader, suffix, node: object())
        A.add_constructor("!app-c", lambda loader, node: object())
        B = type("AppLoaderB", (Base,), {})
        B.add_constructor("!app-c2", lambda loader, node: object())
        B.add_multi_constructor("!app-m2/", lambda loader, suffix, node: object())
        B.add_implicit_resolver("!app-c2", __import__("re").compile("^app$"), ["a"])
        # the module-level helpers with an explicit Loader= argument register on that class only
        C = type("AppLoaderC", (Base,), {})
        yaml.add_constructor("!app-c3", lambda loader, node: object(), Loader=C)
        yaml.add_multi_constructor("!app-m3/", lambda loader, suffix, node: object(), Loader=C)
        yaml.add_implicit_resolver("!app-c3", __import__("re").compile("^app3$"), ["a"], Loader=C, Dumper=type("AppDumperC", (yaml.SafeDumper,), {}))
        yaml.add_path_resolver("!app-c3", ["app-key"], Loader=C, Dumper=type("AppDumperD", (yaml.SafeDumper,), {}))
    # ... and with no Loader= argument (the documented usage) they register on Loader, FullLoader and UnsafeLoader - never
    # on the safe or base loaders.  The value they build is one fixed harness object (APP_D_VALUE).
    yaml.add_constructor("!app-d", lambda loader, node: APP_D_VALUE)
    yaml.add_multi_constructor("!app-dm/", lambda loader, suffix, node: APP_D_VALUE)
    yaml.add_implicit_resolver("!app-d", __import__("re").compile("^appd$"), ["a"])
    yaml.add_path_resolver("!app-d", ["app-key", None])
    _warm.done = True


def eval_doc(case):
    import yaml
    doc, as_bytes, multi = case
    _warm()
    text, positions = safety.render(doc)
    if multi == 2:
        # behind a document that loads and whose %TAG directive gives the same shorthands a core meaning: what a directive
        # defined ends with its document, so '!str' / '!seq' / '!map' are local (non-core) tags again in the generated document
        text, positions = safety.render(dict(doc, explicit=True))
        text = "%TAG ! tag:yaml.org,2002:\n--- [!str a, !seq [!map {}], !int 1, !!str b]\n" + text
    elif multi:
        text2, positions2 = safety.render(dict(doc, explicit=True))
        text = text + text2
        positions = positions + positions2
    data = text.encode("utf-8") if as_bytes else text
    dispatched = [p for p in positions if not p[1]]
    consumed = [p for p in positions if p[1]]
    cl = set()
    for ctx, cons, tag in positions:
        fam = "other"
        if tag.startswith(safety.PY):
            rest = tag[len(safety.PY):]
            fam = rest.split(":")[0] if ":" in rest else "value-tag"
        cl.add("tag:%s@%s" % (fam, ctx))
    if dispatched:
        cl.add("foreign-tag:dispatched")
    if consumed:
        cl.add("foreign-tag:consumed")
    if not positions:
        cl.add("no-foreign-tag")
    if multi == 2:
        cl.add("behind-a-document-that-redefines-the-primary-handle")
    failures = []
    evals = 0
    mon = get_monitor()
    for lname, L, is_safe in loader_legs():
        evals += 1
        allowed = SAFE_TYPES if is_safe else BASE_TYPES
        exc = None
        result = None
        with mon:
            try:
                if L is None:
                    result = list(yaml.safe_load_all(data)) if multi else yaml.safe_load(data)
                else:
                    result = list(yaml.load_all(data, Loader=L)) if multi else yaml.load(data, Loader=L)
            except RecursionError as e:
                exc = e
            except Exception as e:
                exc = e
        for k in mon.keys():
            failures.append(Failure("effect:%s:%s" % (lname, k), "%s\ntext=%r" % (mon.problems[:4], text[:300])))
        mon.problems = []
        if exc is not None:
            if not isinstance(exc, yaml.YAMLError):
                failures.append(Failure("non-yaml-error:%s:%s" % (lname, exc_key(exc)), "%s\ntext=%r" % (exc_msg(exc), text[:300])))
            continue
        if multi and result and L is not yaml.BaseLoader:
            pass
        bad = walk_result(result, allowed)
        if bad:
            failures.append(Failure("non-plain-result:%s" % lname, "%s\ntext=%r" % (bad, text[:300])))
        if is_safe and dispatched:
            failures.append(Failure("foreign-tag-accepted:%s:%s" % (lname, sorted({p[0] for p in dispatched})[0]),
                                    "non-core tag(s) %r accepted; result=%.100r\ntext=%r" % (dispatched[:3], result, text[:300])))
        elif is_safe and consumed:
            failures.append(Failure("foreign-tag-ignored-on-consumed-node:%s" % lname,
                                    "non-core tag(s) %r ignored; result=%.100r\ntext=%r" % (consumed[:3], result, text[:300])))
    return Eval(failures, sorted(cl), nontrivial=bool(dispatched), ident=text, evals=evals, sample={"text": text[:300]})


def registry_tags():
    import yaml.constructor as C
    tags = set()
    for name in dir(C):
        cls = getattr(C, name)
        if isinstance(cls, type) and hasattr(cls, "yaml_constructors"):
            for t in cls.yaml_constructors:
                if t:
                    tags.add(t)
            for t in cls.yaml_multi_constructors:
                if t:
                    tags.add(t + "canary_imported.func")
                    tags.add(t + "os.system")
                    tags.add(t)
    return sorted(tags - safety.CORE_TAGS)


def doc_cases():
    fams = safety.OBJECT_FAMILIES + [safety.NAME_FAMILY]
    return st.tuples(safety.documents(fams, registry_tags=registry_tags()), st.booleans(), st.sampled_from([False, False, True, 2]))


# ------------------------------------------------------------------------------------------------
# static arm: effective constructor tables of the safe classes

def enum_static(shard, nshards, tier):
    if shard == 0:
        yield "tables"


def eval_static(case):
    import yaml
    from yaml import constructor as C
    failures = []
    want = {"tag:yaml.org,2002:" + n for n in safety.CORE} | {None}
    classes = [("SafeLoader", yaml.SafeLoader), ("SafeConstructor", C.SafeConstructor)]
    if have_c():
        classes.append(("CSafeLoader", yaml.CSafeLoader))
    n = 0
    for name, cls in classes:
        n += 1
        got = set(cls.yaml_constructors)
        if got != want:
            failures.append(Failure("static:constructor-table:%s" % name, "extra=%r missing=%r" % (
                sorted(map(str, got - want)), sorted(map(str, want - got)))))
        if cls.yaml_multi_constructors:
            failures.append(Failure("static:multi-constructor-table:%s" % name, repr(sorted(map(str, cls.yaml_multi_constructors)))))
        # a core tag must not be bound to a function of the full / unsafe constructor classes (which function implements a core
        # tag is otherwise the library's business: wrappers and decorators are fine)
        for tag, fn in cls.yaml_constructors.items():
            qn = getattr(fn, "__qualname__", "")
            if qn.startswith(("FullConstructor.", "UnsafeConstructor.", "Constructor.")):
                failures.append(Failure("static:foreign-function:%s" % name, "%r -> %s" % (tag, qn)))
        if cls.yaml_constructors.get(None) is not C.SafeConstructor.construct_undefined:
            failures.append(Failure("static:undefined-handler:%s" % name, repr(cls.yaml_constructors.get(None))))
    bases = [("BaseLoader", yaml.BaseLoader)] + ([("CBaseLoader", yaml.CBaseLoader)] if have_c() else [])
    for name, cls in bases:
        n += 1
        if cls.yaml_constructors or cls.yaml_multi_constructors:
            failures.append(Failure("static:base-table-not-empty:%s" % name, repr(cls.yaml_constructors)))
        if C.SafeConstructor in cls.__mro__:
            failures.append(Failure("static:base-loader-has-safe-constructor:%s" % name, ""))
    for name, cls in classes[:1] + classes[2:]:
        if C.FullConstructor in cls.__mro__ or C.UnsafeConstructor in cls.__mro__:
            failures.append(Failure("static:safe-loader-composed-with-full-constructor:%s" % name, repr(cls.__mro__)))
    import inspect
    for fn in (yaml.safe_load, yaml.safe_load_all):
        src = inspect.getsource(fn)
        n += 1
        if "SafeLoader" not in src:
            failures.append(Failure("static:safe_load-not-bound-to-SafeLoader", src[-120:]))
    return Eval(failures, ["static:tables"], nontrivial=True, ident="static", evals=n, sample="effective constructor tables")


def arms(tier):
    return [
        Arm("docs", eval_doc, doc_cases, quick=12000, thorough=300000),
        Arm("static", eval_static, enum=enum_static, exhaustive=True, shards=1),
    ]


REQUIRED_CLASSES = ["foreign-tag:dispatched", "foreign-tag:consumed", "tag:object/apply@root", "tag:object@key",
                    "tag:name@set-member", "tag:object/new@merge-source", "tag:module@value", "static:tables"]


def known_class(arm, case, key):
    if key.startswith("foreign-tag-ignored-on-consumed-node:"):
        return "tag-ignored-on-structurally-consumed-node"
    return None


def pinned_known(key, rec):
    import yaml
    if key == "tag-ignored-on-structurally-consumed-node":
        try:
            return yaml.safe_load("<<: !!python/object:os.system {a: 1}") == {"a": 1}
        except yaml.YAMLError:
            return False
    return True
