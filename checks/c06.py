"""C06 - the LibYAML back-end is a drop-in replacement for the pure-Python one (differential)."""
from hypothesis import strategies as st

from vlib import gen_docs as gd
from vlib import gen_events as ge
from vlib import gen_values as gv
from vlib.compare import bisimilar
from vlib.runner import Arm, Eval, Failure
from vlib.util import exc_key, exc_msg, have_c, shorthand_with_flow_indicator

PROPERTY = "C06"
LEVEL = "exploration"
RULE = ("Differential testing of Loader-family vs CLoader-family classes under the repository's own equivalence. Arm 'portable': "
        "documents rendered from the abstract portable-subset grammar (block/flow collections, five scalar styles with indentation "
        "and chomping indicators, comments, anchors/aliases, tags, directives, multi-document streams, LF/CRLF/CR/NEL/LS/PS breaks) "
        "whose expected events are known by construction; events, node graphs and objects (Base/Safe/Full/Unsafe pairs) must agree "
        "between back-ends and with the expectation. Arm 'dumped': texts produced by either dumper from generated values and by "
        "either emitter from generated event streams must be read identically by both loaders. Arm 'malformed': undefined alias, "
        "duplicate anchor, unknown tag, second document in a single-document load - both back-ends must raise the same class. "
        "Non-trivial = a non-plain scalar, block-scalar indicator, anchor/alias, explicit tag, directive, >1 document, non-LF break "
        "or comment; distinct = hash of text.")
ASSUMPTIONS = [
    "events are compared on class, anchor, tag, implicit, value, explicit, version, tags (as tests/legacy_tests/test_yaml_ext.py does)",
    "the non-specific tag '!' is outside the portable subset (listed known finding, one pinned input)",
    "error classes are compared only for the four malformed classes the property names",
]

EVENT_ATTRS = ("anchor", "tag", "implicit", "value", "explicit", "version", "tags")


def ev_tuple(e):
    out = [type(e).__name__]
    for a in EVENT_ATTRS:
        if hasattr(e, a):
            v = getattr(e, a)
            if a == "implicit" and isinstance(v, (tuple, list)):
                v = tuple(bool(x) for x in v)
            elif a in ("implicit", "explicit"):
                v = bool(v)
            elif a == "version" and v is not None:
                v = tuple(v)
            elif a == "tags" and v is not None:
                v = dict(v) or None
            out.append((a, v))
    return tuple(out)


def node_diff(a, b):
    from yaml.nodes import ScalarNode, SequenceNode, MappingNode
    amap, bmap = {}, {}

    def go(x, y, path):
        if type(x) is not type(y):
            return "%s: node kind %s vs %s" % (path, type(x).__name__, type(y).__name__)
        if x.tag != y.tag:
            return "%s: tag %r vs %r" % (path, x.tag, y.tag)
        ix, iy = id(x), id(y)
        if ix in amap or iy in bmap:
            if amap.get(ix) != bmap.get(iy):
                return "%s: identity structure differs" % path
            return None
        amap[ix] = bmap[iy] = len(amap)
        if isinstance(x, ScalarNode):
            if x.value != y.value:
                return "%s: value %r vs %r" % (path, x.value, y.value)
            return None
        if len(x.value) != len(y.value):
            return "%s: length %d vs %d" % (path, len(x.value), len(y.value))
        if isinstance(x, SequenceNode):
            for i, (p, q) in enumerate(zip(x.value, y.value)):
                r = go(p, q, "%s[%d]" % (path, i))
                if r:
                    return r
            return None
        for i, ((k1, v1), (k2, v2)) in enumerate(zip(x.value, y.value)):
            r = go(k1, k2, "%s{%d}k" % (path, i)) or go(v1, v2, "%s{%d}v" % (path, i))
            if r:
                return r
        return None
    return go(a, b, "$")


def outcome(fn):
    import yaml
    try:
        return ("ok", fn())
    except RecursionError:
        raise
    except yaml.YAMLError as e:
        return ("yamlerror", e)
    except Exception as e:
        return ("error", e)


def exp_tuple(e):
    k = e[0]
    if k == "SS":
        return ("StreamStartEvent",)
    if k == "SE":
        return ("StreamEndEvent",)
    if k == "DS":
        return ("DocumentStartEvent", ("explicit", e[1]), ("version", e[2]), ("tags", e[3]))
    if k == "DE":
        return ("DocumentEndEvent", ("explicit", e[1]))
    if k == "AL":
        return ("AliasEvent", ("anchor", e[1]))
    if k == "SC":
        _, anchor, tag, value, plain = e
        imp = (False, False) if tag is not None else ((True, False) if plain else (False, True))
        return ("ScalarEvent", ("anchor", anchor), ("tag", tag), ("implicit", imp), ("value", value))
    if k == "QS":
        return ("SequenceStartEvent", ("anchor", e[1]), ("tag", e[2]), ("implicit", e[2] is None))
    if k == "MS":
        return ("MappingStartEvent", ("anchor", e[1]), ("tag", e[2]), ("implicit", e[2] is None))
    if k == "QE":
        return ("SequenceEndEvent",)
    if k == "ME":
        return ("MappingEndEvent",)
    raise AssertionError(e)


PAIRS = [("Base", "BaseLoader", "CBaseLoader"), ("Safe", "SafeLoader", "CSafeLoader"),
         ("Full", "FullLoader", "CFullLoader"), ("Unsafe", "UnsafeLoader", "CUnsafeLoader")]

NAMED_CLASSES = ("ComposerError", "ConstructorError")

_custom = {}


def custom_pair(yaml):
    """A pair of application loader classes customised in the same way on both back-ends: path resolvers (their stacks are
    walked on every node and every alias), an implicit resolver and constructors for the tags these produce."""
    if not _custom and have_c():
        from yaml.constructor import SafeConstructor
        for name, base in (("py", yaml.SafeLoader), ("c", yaml.CSafeLoader)):
            cls = type("C06App" + name, (base,), {})
            cls.add_path_resolver("!c06-item", [None], str)
            cls.add_path_resolver("!c06-deep", [None, None], dict)
            cls.add_path_resolver("!c06-second", [(list, 1)])
            cls.add_path_resolver("!c06-root", [], list)
            cls.add_implicit_resolver("!c06-word", re.compile(r"^w[0-9]+$"), ["w"])
            cls.add_constructor("!c06-item", lambda l, n: "item:" + l.construct_scalar(n))
            cls.add_constructor("!c06-word", lambda l, n: "word:" + l.construct_scalar(n))
            cls.add_constructor("!c06-deep", SafeConstructor.construct_yaml_map)
            cls.add_constructor("!c06-root", SafeConstructor.construct_yaml_seq)
            cls.add_multi_constructor("!c06-second", lambda l, suffix, n: ("second", n.id))
            _custom[name] = cls
    return _custom.get("py"), _custom.get("c")


import re
BANG_RE = re.compile(r"(^|[\s\[{,])!(<(%21|!)>)?([\s,\]}]|$)")


def _drop_bang_implicit(evs):
    out = []
    for e in evs:
        if ("tag", "!") in e and (e[0] != "ScalarEvent" or ("value", "") in e):
            e = tuple(x for x in e if not (isinstance(x, tuple) and x[0] == "implicit"))
        out.append(e)
    return out


def compare_text(text, expected=None, levels=("parse", "compose", "load"), make_input=None):
    """All differential comparisons on one text.  Returns (failures, evals, summary).
    make_input: optional factory returning a fresh delivery form of the text (e.g. a short-read stream) per call."""
    import yaml
    _orig_text = text
    if make_input is not None:
        class _Fresh:
            """stands for the text; every use builds a fresh stream"""
        failures = []
        return _compare(yaml, text, expected, levels, make_input)
    return _compare(yaml, text, expected, levels, lambda: text)


def _compare(yaml, text, expected, levels, inp):
    failures = []
    evals = 0
    summary = {}
    if not have_c():
        return failures, evals, summary
    stext = text if isinstance(text, str) else text.decode("utf-16" if text[:2] in (b"\xff\xfe", b"\xfe\xff") else "utf-8", "replace")
    bang = bool(BANG_RE.search(stext))
    if bang:
        # known finding non-specific-tag-bang-diverges: excluded by construction (counted by the caller)
        summary["excluded"] = "bang-tag"
        levels = tuple(l for l in levels if l == "parse")
    if "parse" in levels:
        evals += 2
        a = outcome(lambda: [ev_tuple(e) for e in yaml.parse(inp(), Loader=yaml.Loader)])
        b = outcome(lambda: [ev_tuple(e) for e in yaml.parse(inp(), Loader=yaml.CLoader)])
        summary["parse"] = (a[0], b[0])
        for side, r in (("py", a), ("c", b)):
            if r[0] == "error":
                failures.append(Failure("parse:%s:non-yaml-error:%s" % (side, exc_key(r[1])), exc_msg(r[1])))
        if bang and a[0] == "ok" and b[0] == "ok":
            a = ("ok", _drop_bang_implicit(a[1]))
            b = ("ok", _drop_bang_implicit(b[1]))
        if a[0] == "ok" and b[0] == "ok":
            if a[1] != b[1]:
                i = next((i for i, (x, y) in enumerate(zip(a[1], b[1])) if x != y), min(len(a[1]), len(b[1])))
                x = a[1][i] if i < len(a[1]) else None
                y = b[1][i] if i < len(b[1]) else None
                attr = "structure"
                if x and y and x[0] == y[0]:
                    attr = next((p[0] for p, q in zip(x[1:], y[1:]) if p != q), "attr")
                who = ""
                if expected is not None:
                    ex = [exp_tuple(e) for e in expected]
                    who = ":py-deviates" if a[1] != ex and b[1] == ex else (":c-deviates" if b[1] != ex and a[1] == ex else ":both-deviate")
                failures.append(Failure("events-differ:%s%s" % (attr, who), "event %d: py=%r c=%r" % (i, x, y)))
            elif expected is not None:
                ex = [exp_tuple(e) for e in expected]
                if a[1] != ex:
                    i = next((i for i, (x, y) in enumerate(zip(a[1], ex)) if x != y), min(len(a[1]), len(ex)))
                    failures.append(Failure("events-differ-from-expected:both",
                                            "event %d: got %r expected %r" % (i, a[1][i] if i < len(a[1]) else None, ex[i] if i < len(ex) else None)))
        elif a[0] != b[0]:
            failures.append(Failure("parse:one-side-fails:py=%s:c=%s" % (
                a[0] if a[0] == "ok" else type(a[1]).__name__, b[0] if b[0] == "ok" else type(b[1]).__name__),
                "py=%s c=%s" % (a[0] if a[0] == "ok" else exc_msg(a[1]), b[0] if b[0] == "ok" else exc_msg(b[1]))))
        elif expected is not None and a[0] != "ok":
            failures.append(Failure("valid-document-rejected-by-both:%s" % type(a[1]).__name__, exc_msg(a[1])))
    app_py, app_c = custom_pair(yaml)
    # node graphs of every loader pair (the resolver a class is composed with shows in the node tags only): the default pair, the
    # Base pair (no implicit resolvers) and one of the Safe / Full / Unsafe pairs in rotation, then the customised pair
    rot = PAIRS[1 + len(text) % 3] if isinstance(text, (str, bytes)) else PAIRS[1]
    compose_pairs = (("compose", yaml.Loader, yaml.CLoader), ("compose:Base", yaml.BaseLoader, yaml.CBaseLoader),
                     ("compose:" + rot[0], getattr(yaml, rot[1]), getattr(yaml, rot[2])), ("compose:customised", app_py, app_c))
    for cname, LP, LC in (compose_pairs if "compose" in levels else ()):
        evals += 2
        a = outcome(lambda: list(yaml.compose_all(inp(), Loader=LP)))
        b = outcome(lambda: list(yaml.compose_all(inp(), Loader=LC)))
        summary[cname] = (a[0], b[0])
        if a[0] == "ok" and b[0] == "ok":
            if len(a[1]) != len(b[1]):
                failures.append(Failure("nodes-differ%s:count" % cname[7:], "%d vs %d documents" % (len(a[1]), len(b[1]))))
            else:
                for i, (x, y) in enumerate(zip(a[1], b[1])):
                    if (x is None) != (y is None):
                        failures.append(Failure("nodes-differ%s:none" % cname[7:], "document %d" % i))
                        break
                    d = node_diff(x, y) if x is not None else None
                    if d:
                        failures.append(Failure("nodes-differ%s:" % cname[7:] + d.split(": ")[1].split(" ")[0], "document %d %s" % (i, d)))
                        break
        elif a[0] != b[0] or type(a[1]) is not type(b[1]):
            ca = "ok" if a[0] == "ok" else type(a[1]).__name__
            cb = "ok" if b[0] == "ok" else type(b[1]).__name__
            if "ComposerError" in (ca, cb) or "ok" in (ca, cb):
                failures.append(Failure("%s:outcome-differs:py=%s:c=%s" % (cname, ca, cb), "py=%s c=%s" % (
                    ca if a[0] == "ok" else exc_msg(a[1]), cb if b[0] == "ok" else exc_msg(b[1]))))
    if "load" in levels:
        for name, pl, cl in PAIRS + [("customised", app_py, app_c)]:
            evals += 2
            pl = getattr(yaml, pl) if isinstance(pl, str) else pl
            cl = getattr(yaml, cl) if isinstance(cl, str) else cl
            a = outcome(lambda: list(yaml.load_all(inp(), Loader=pl)))
            b = outcome(lambda: list(yaml.load_all(inp(), Loader=cl)))
            summary["load:" + name] = (a[0], b[0])
            if a[0] == "ok" and b[0] == "ok":
                d = bisimilar(a[1], b[1], key_order=True)
                if d:
                    failures.append(Failure("objects-differ:%s:%s" % (name, d.split(": ")[1]), d))
            else:
                ca = "ok" if a[0] == "ok" else type(a[1]).__name__
                cb = "ok" if b[0] == "ok" else type(b[1]).__name__
                if ca != cb and ("ok" in (ca, cb) or ca in NAMED_CLASSES or cb in NAMED_CLASSES):
                    failures.append(Failure("load:outcome-differs:%s:py=%s:c=%s" % (name, ca, cb), "py=%s c=%s" % (
                        ca if a[0] == "ok" else exc_msg(a[1]), cb if b[0] == "ok" else exc_msg(b[1]))))
    return failures, evals, summary


def eval_portable(case):
    r = gd.render(case)
    failures, evals, summary = compare_text(r.text, r.events)
    feats = sorted(r.features) + (["excluded:bang-tag"] if summary.get("excluded") else [])
    nontrivial = any(f for f in feats if not f.startswith(("scalar:plain", "block-seq", "block-map", "flow-")) or f == "flow-multiline")
    return Eval(failures, feats, nontrivial=nontrivial, ident=r.text, evals=evals,
                sample={"text": r.text[:400], "outcomes": {k: list(v) for k, v in summary.items()}})


def eval_dumped_value(case):
    import yaml
    bp, opts = case
    obj, info = gv.build(bp)
    failures = []
    evals = 0
    cl = ["dumped:value"]
    for dname, D in (("py", yaml.SafeDumper), ("c", yaml.CSafeDumper)):
        try:
            text = yaml.dump(obj, Dumper=D, **opts)
        except Exception:
            continue
        f, e, sm = compare_text(text, None)
        if sm.get("excluded"):
            cl.append("excluded:bang-tag")
        evals += e + 1
        failures.extend(Failure("dumped-by-%s:%s" % (dname, x.key), "%s\ntext=%r" % (x.msg, text[:300])) for x in f)
    return Eval(failures, cl, nontrivial=True, ident=repr(case), evals=evals, sample={"blueprint": repr(bp)[:300], "options": repr(opts)})


def eval_dumped_events(case):
    import yaml
    stream, opts = case
    failures = []
    evals = 0
    cl = {"dumped:events"}
    for dname, D in (("py", yaml.Dumper), ("c", yaml.CDumper)):
        if dname == "c" and shorthand_with_flow_indicator(ge.build_events(stream)):
            # listed known finding libyaml-emitter-writes-flow-indicator-in-shorthand-tag: LibYAML's emitter writes a shorthand tag
            # that LibYAML's scanner rejects by design (outside the portable subset); excluded by construction and counted
            cl.add("excluded:c-emitted-flow-indicator-in-shorthand-tag")
            continue
        try:
            text = yaml.emit(ge.build_events(stream), Dumper=D, **opts)
        except Exception:
            continue
        f, e, sm = compare_text(text, None, levels=("parse", "compose"))
        if sm.get("excluded"):
            cl.add("excluded:bang-tag")
        evals += e + 1
        failures.extend(Failure("emitted-by-%s:%s" % (dname, x.key), "%s\ntext=%r" % (x.msg, text[:300])) for x in f)
    return Eval(failures, sorted(cl), nontrivial=True, ident=repr(case), evals=evals,
                sample={"events": [ge.ev_repr(e) for e in ge.build_events(stream)[:8]], "options": repr(opts)})


MALFORMED = {
    "undefined-alias": ["*a", "- *a", "k: *a", "[a, *b]", "- &a x\n- *b", "--- &a x\n--- *a", "{*a : b}", "&a [*b]"],
    "duplicate-anchor": ["- &a x\n- &a y", "[&a x, &a y]", "&a {k: &a v}", "&a [&a []]", "k: &a 1\nj: &a 2"],
    "unknown-tag": ["!foo x", "- !foo [a]", "k: !foo {a: b}", "!!python/object:os.system x", "!<tag:unknown,1:x> v", "!!nosuch x",
                    "- !!python/object/apply:os.system [echo]", "%TAG !e! tag:e,1:\n--- !e!x y"],
    "second-document": ["a\n--- b", "--- a\n--- b\n", "a\n...\n--- b", "--- [a]\n--- {b: c}\n", "---\n---\n", "a\n...\n---\n"],
}


def eval_malformed(case):
    import yaml
    cls, text, ctx = case
    text = ctx.replace("@", text)
    failures = []
    evals = 0
    outs = {}
    for name, pl, cl in PAIRS:
        if cls == "unknown-tag" and name in ("Base", "Unsafe"):
            continue        # the Base loaders ignore tags by design; the Unsafe loaders may accept python/* tags
        fns = []
        if cls == "second-document":
            fns = [("load", lambda L: yaml.load(text, Loader=L)), ("compose", lambda L: yaml.compose(text, Loader=L))]
        elif cls == "unknown-tag":
            fns = [("load_all", lambda L: list(yaml.load_all(text, Loader=L)))]
        else:
            fns = [("compose_all", lambda L: list(yaml.compose_all(text, Loader=L))), ("load_all", lambda L: list(yaml.load_all(text, Loader=L)))]
        for fname, fn in fns:
            evals += 2
            a = outcome(lambda: fn(getattr(yaml, pl)))
            b = outcome(lambda: fn(getattr(yaml, cl)))
            ca = "ok" if a[0] == "ok" else type(a[1]).__name__
            cb = "ok" if b[0] == "ok" else type(b[1]).__name__
            outs["%s:%s" % (name, fname)] = [ca, cb]
            if ca != cb:
                failures.append(Failure("malformed:%s:%s:%s:py=%s:c=%s" % (cls, name, fname, ca, cb), "text=%r" % text))
            expected = {"undefined-alias": "ComposerError", "duplicate-anchor": "ComposerError", "unknown-tag": "ConstructorError",
                        "second-document": "ComposerError"}[cls]
            if ca != expected and not (cls == "unknown-tag" and name in ("Full",) and ca == "ok"):
                failures.append(Failure("malformed:%s:%s:%s:py-raises-%s" % (cls, name, fname, ca), "expected %s; text=%r" % (expected, text)))
    return Eval(failures, ["malformed:" + cls], nontrivial=True, ident=(cls, text), evals=evals, sample={"class": cls, "text": text, "outcomes": outs})


def enum_malformed(shard, nshards, tier):
    i = 0
    for cls, texts in MALFORMED.items():
        for t in texts:
            block = t.startswith("- ") or ": " in t or "\n" in t or t.startswith("%")
            ctxs = ["@"] if ("\n" in t or t.startswith("%") or "---" in t) else (["@", "- @"] if block else ["@", "- @", "k: @", "- - @", "k:\n  j: @"])
            for c in ctxs:
                if i % nshards == shard:
                    yield (cls, t, c)
                i += 1


def eval_stream_delivery(case):
    """The same comparison with the document delivered through a short-read text or byte stream (both back-ends read the
    caller's stream through its read() method only)."""
    from checks.c07 import ChunkedText, ChunkedBytes
    stream, schedule, as_bytes = case
    r = gd.render(stream)
    text = r.text
    if as_bytes:
        data = text.encode("utf-8")
        factory = lambda: ChunkedBytes(data, schedule)
    else:
        factory = lambda: ChunkedText(text, schedule)
    failures, evals, summary = compare_text(text, r.events, make_input=factory)
    feats = ["delivery:short-read-%s-stream" % ("byte" if as_bytes else "text")] + sorted(r.features)
    return Eval(failures, feats, nontrivial=True, ident=(text, tuple(schedule), as_bytes), evals=evals,
                sample={"text": text[:300], "schedule": schedule, "bytes": as_bytes})


def stream_cases():
    sched = st.lists(st.sampled_from([1, 2, 3, 7, 64, 1000, 4096]), min_size=1, max_size=6)
    return st.tuples(gd.streams(3, 10), sched, st.booleans())


LIMIT_SHAPES = ["%s: v\n", "- %s: v\n", "{%s: v}\n", "'%s': v\n", "\"%s\": v\n", "&a !!str %s: v\n", "k:\n  %s: v\n", "%s   : v\n", "? %s\n: v\n",
                "- &%s x\n", "!%s x\n", "[%s, b]\n", "%s\n"]
LIMIT_LENGTHS = [126, 127, 128, 129, 130, 255, 256, 257, 1019, 1020, 1021, 1022, 1023, 1024, 1025, 1026, 1027, 1030, 2048, 4095, 4096, 4097]


def enum_limits(shard, nshards, tier):
    """Length limits: names of every kind at and around the lengths where either back-end has a limit (128, 256, 1024, 4096)."""
    i = 0
    for shape in LIMIT_SHAPES:
        for n in LIMIT_LENGTHS:
            for fill in ("k", "\xe9"):
                if i % nshards == shard:
                    yield (shape, n, fill)
                i += 1


def enum_boundaries(shard, nshards, tier):
    """Indicators and document markers followed directly by every separator the portable subset allows - a space, each kind
    of line break, the end of the input - after several kinds of preceding content (exhaustive)."""
    nls = ["\n", "\r", "\r\n", "\x85", "\u2028", "\u2029"]
    texts = []
    for nl in nls:
        for body in ["a", "a b", "- a", "k: v", "'q'", "[a]", "k: |%s  t" % nl, "a%s  b" % nl]:
            for marker in ["...", "---"]:
                for after in ["", " ", nl, " x", nl + "b", " #c" + nl, nl + nl]:
                    texts.append(body + nl + marker + after)
                for pre in [nl + nl, nl + " " + nl, nl + nl + nl]:        # blank lines before the marker
                    for after in ["", nl, " x"]:
                        texts.append(body + pre + marker + after)
        # blank lines inside multi-line plain, single- and double-quoted scalars
        for gap in [nl + nl, nl + " " + nl, nl + nl + nl]:
            for after in ["", nl]:
                texts.append("a%s b%s" % (gap, after))
                texts.append("k: a%s  b%s" % (gap, after))
                texts.append("'a%s b'%s" % (gap, after))
                texts.append("k: \"a%s  b\"%s" % (gap, after))
                texts.append("- 'a %s  b'%s- c%s" % (gap, nl, after))
                texts.append("k: |%s  a%s" % (gap, after))                 # leading blank lines of block scalars
                texts.append("--- >%s  a%s  b%s" % (gap, nl, after))
                texts.append("- |+%s  a%s%s" % (gap, gap, after))
        for after in ["", nl]:
            texts.append("-%s  a%s" % (nl, after))
            texts.append("- -%s    a%s- b%s" % (nl, nl, after))
            texts.append("?%s  k%s:%s  v%s" % (nl, nl, nl, after))
            texts.append("k:%s  v%s" % (nl, after))
            texts.append("? k%s:%s  - v%s" % (nl, nl, after))
            texts.append("[a,%s b,%s]%s" % (nl, nl, after))
            texts.append("{a:%s  b,%s ? c%s}%s" % (nl, nl, nl, after))
            texts.append("a: &x%s  b%sc: *x%s" % (nl, nl, after))
            texts.append("--- >%s  a%s%s  b%s...%s" % (nl, nl, nl, nl, after))
    for i, t in enumerate(texts):
        if i % nshards == shard:
            yield t


def eval_boundaries(text):
    failures, evals, summary = compare_text(text)
    return Eval(failures, ["boundaries"], nontrivial=True, ident=text, evals=evals, sample={"text": text, "outcomes": {k: list(v) for k, v in summary.items()}})


def eval_limits(case):
    shape, n, fill = case
    text = shape % (fill * n)
    failures, evals, summary = compare_text(text)
    return Eval(failures, ["limits:length-%d" % n if n in (128, 1024, 4096) else "limits:near"], nontrivial=True, ident=text, evals=evals,
                sample={"shape": shape, "length": n, "outcomes": {k: list(v) for k, v in summary.items()}})


TAGGED = {
    "binary": ["aGVsbG8gd29ybGQ=", "aGVsbG8g d29ybGQ=", "aGVs bG8g d29y bGQ=", "", "QQ==", "AAECAwQFBgc="],
    "int": ["12", "-12", "+12", "0x1F", "0b101", "010", "1_000", "190:20:30", "0"],
    "float": ["1.5", "-1.5", ".5", "1e3", "1.5e+3", ".inf", "-.INF", ".NaN", "190:20:30.15", "1_0.5", "12"],
    "bool": ["yes", "No", "TRUE", "off", "on", "false"],
    "null": ["~", "null", "Null", ""],
    "timestamp": ["2001-12-14", "2001-12-14 21:59:43.10 -5", "2001-12-14t21:59:43.10-05:00", "2001-12-15 2:59:43.10", "2002-1-1 1:01:01"],
    "str": ["text", "12", "true", "a b", "", "2001-01-01"],
}


def tagged_scalar_docs():
    """Every core scalar tag, explicitly written, on valid contents in every scalar style and layout (plain incl. a
    continuation line, single- and double-quoted incl. folded lines, literal, folded) at several positions."""
    def mk(t):
        tag, ci, style, pos, nl = t
        content = TAGGED[tag][ci % len(TAGGED[tag])]
        words = content.split(" ")
        if style == "plain":
            body = content if content else None
        elif style == "plain-multiline":
            body = ("\n    ".join(words)) if len(words) > 1 else content or None
        elif style == "single":
            body = "'%s'" % content
        elif style == "double":
            body = '"%s"' % content
        elif style == "double-multiline":
            body = '"%s"' % "\n    ".join(words)
        elif style == "literal":
            body = "|-\n    " + "\n    ".join(words) if content else "|-\n"
        else:
            body = ">-\n    " + "\n    ".join(words) if content else ">-\n"
        if body is None:
            return None
        node = "!!%s %s" % (tag, body)
        block = style in ("literal", "folded")
        if pos == "value":
            text = "k: %s\n" % node
        elif pos == "item":
            text = "- %s\n" % node
        elif pos == "flow" and not block:
            text = "[%s, x]\n" % node.replace("\n    ", "\n  ")
        elif pos == "key" and not block and "\n" not in node:
            text = "? %s\n: v\n" % node
        else:
            text = "--- %s\n" % node
        return text.replace("\n", nl)
    return st.tuples(st.sampled_from(sorted(TAGGED)), st.integers(0, 20),
                     st.sampled_from(["plain", "plain-multiline", "single", "double", "double-multiline", "literal", "folded"]),
                     st.sampled_from(["value", "item", "flow", "key", "root"]), st.sampled_from(["\n", "\n", "\r\n"])).map(mk)


def eval_tagged(text):
    if text is None:
        return Eval([], ["tagged:skipped-empty-plain"], nontrivial=False, ident="none", evals=1)
    failures, evals, summary = compare_text(text)
    tag = text.split("!!", 1)[1].split(" ", 1)[0].split("\n")[0].split("\r")[0] if "!!" in text else "?"
    return Eval(failures, ["tagged:%s" % tag], nontrivial=True, ident=text, evals=evals,
                sample={"text": text, "outcomes": {k: list(v) for k, v in summary.items()}})


def arms(tier):
    return [
        Arm("portable", eval_portable, lambda: gd.streams(3, 10), quick=9000, thorough=500000),
        Arm("dumped-values", eval_dumped_value, lambda: st.tuples(gv.blueprints(max_leaves=15), gv.dump_options()), quick=2500, thorough=150000),
        Arm("dumped-events", eval_dumped_events, lambda: st.tuples(ge.streams(2, 8), ge.emit_options()), quick=2500, thorough=150000),
        Arm("malformed", eval_malformed, enum=enum_malformed, exhaustive=True),
        Arm("stream-delivery", eval_stream_delivery, stream_cases, quick=1500, thorough=60000),
        Arm("limits", eval_limits, enum=enum_limits, exhaustive=True),
        Arm("boundaries", eval_boundaries, enum=enum_boundaries, exhaustive=True),
        Arm("tagged-scalars", eval_tagged, tagged_scalar_docs, quick=1500, thorough=40000),
    ]


def pinned_known(key, rec):
    import yaml
    if key == "non-specific-tag-bang-diverges":
        if not have_c():
            return False
        return yaml.load("- !", Loader=yaml.SafeLoader) != yaml.load("- !", Loader=yaml.CSafeLoader)
    if key == "libyaml-emitter-writes-flow-indicator-in-shorthand-tag":
        from checks import c05
        return c05.pinned_known(key, rec)
    return True
