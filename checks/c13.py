"""C13 - aliases mean identity, and anchors obey the document rules."""
import os
import sys

from hypothesis import strategies as st

from vlib.runner import Arm, Eval, Failure
from vlib.util import exc_key, exc_msg, have_c
from vlib.monitors import CallBudget, BudgetExceeded

PROPERTY = "C13"
LEVEL = "exploration"
RULE = ("Hypothesis-generated abstract *graphs*: nodes of kind list, dict, set, omap, pairs, scalar (and python/tuple for the "
        "full loaders, python/object instances for the unsafe loaders), each optionally anchored; aliases point to any anchor "
        "opened so far - finished nodes (sharing) or ancestors (self-reference) -, rendered in flow and block style, one or two "
        "documents. Ill-formed arm: exactly one defect - forward/undefined alias, alias to an anchor of the previous document, "
        "duplicate anchor, container as its own key / set member. Loaders Safe/Full/Unsafe x pure-Python/LibYAML, and "
        "compose for node graphs. Oracle: a parallel walk of the loaded graph and the abstract graph builds a relation "
        "abstract node <-> Python object (lists, dicts, sets, omap/pairs lists, constructed instances) which must be a "
        "bijection (same object iff same anchored node/alias); contents must match; the defects must raise ComposerError / "
        "ConstructorError; never RecursionError, and the call budget (termination) must hold. Non-trivial = an alias to a "
        "container, or a defect; distinct = hash of text.")
ASSUMPTIONS = [
    "identity of immutable scalars and of tuples is not claimed by the property and not compared",
    "which self-references can be built is decided by a reference model of the documented two-phase construction (simulate()): "
    "containers and instances are resolvable by aliases while they are being filled; tuples and everything built in deep mode "
    "(the state of a class with __setstate__) are not. Where the model says a cycle cannot be built, ConstructorError is required; "
    "elsewhere the identity bijection is required. Cycles through lists/dicts only that the model rejects are the listed known "
    "finding (deep construction), reproduced by its pinned input",
    "mapping keys are unique strings by construction, so positions can be matched without relying on key order",
]

T = "tag:yaml.org,2002:"


class Ctx:
    def __init__(self, block):
        self.block = block
        self.opened = []        # (name, abstract id, kind) in opening order, current document
        self.count = 0
        self.nid = 0
        self.scalars = 0
        self.cl = set()
        self.stack = []         # abstract ids of open ancestors
        self.expect = {}        # abstract id -> ("q", [child ids]) etc.
        self.through_tuple = False
        self.has_objs = False
        self.has_cycle = False
        self.prev_doc_anchor = None


def _new(ctx, kind):
    ctx.nid += 1
    return ctx.nid


def render_node(ctx, n, keypos=False):
    """-> (text, abstract id or ("alias", id)).  Registers the expected structure in ctx.expect."""
    k = n[0]
    if k == "a":
        pool = ctx.opened
        if keypos:
            pool = [a for a in pool if a[2] == "s"]
        if not pool:
            return render_node(ctx, ("s", False), keypos)
        if not keypos:
            # steer: a finished container (sharing), an ancestor (self-reference) or anything, by the drawn number
            fin = [a for a in pool if a[2] != "s" and a[1] not in ctx.stack]
            anc = [a for a in pool if a[1] in ctx.stack]
            pool = [fin, anc, pool][n[1] % 3] or pool
        name, aid, kind = pool[(n[1] // 3) % len(pool)]
        if kind != "s" and aid not in ctx.stack:
            ctx.cl.add("alias-to-finished-container")
        if kind != "s":
            ctx.cl.add("alias-to-container")
            if aid in ctx.stack:
                ctx.cl.add("alias-to-ancestor")
                ctx.has_cycle = True
                # is there a tuple between the ancestor and here?
                idx = ctx.stack.index(aid)
                if any(ctx.expect[x][0] == "t" for x in ctx.stack[idx:]):
                    ctx.through_tuple = True
                    ctx.cl.add("recursion-through-tuple")
                # the state of a class with __setstate__ is constructed deeply: a cycle that lies wholly inside such a
                # state (the target is below the instance) may be rejected as well
                if any(ctx.expect[x][0] == "objs" for x in ctx.stack[:idx]):
                    ctx.through_tuple = True
                    ctx.cl.add("recursion-inside-setstate-state")
        else:
            ctx.cl.add("alias-to-scalar")
        return "*" + name, aid
    nid = _new(ctx, k)
    anchor = ""
    if n[1]:
        ctx.count += 1
        name = "a%d" % ctx.count
        anchor = "&%s " % name
        ctx.opened.append((name, nid, "s" if k == "s" else k))
    if k == "s":
        ctx.scalars += 1
        text = "v%d" % ctx.scalars
        ctx.expect[nid] = ("s", text)
        return anchor + text, nid
    ctx.stack.append(nid)
    try:
        if k in ("q", "t"):
            ctx.expect[nid] = (k, [])
            parts = []
            for c in n[2]:
                t, cid = render_node(ctx, c)
                parts.append(t)
                ctx.expect[nid][1].append(cid)
            tag = "!!python/tuple " if k == "t" else ""
            return anchor + tag + "[" + ", ".join(parts) + "]", nid
        if k in ("m", "obj", "objs"):
            yflavour = k != "m" and len(n) > 3 and n[3] == "y"        # a YAMLObject subclass instead of a python/object tag
            ctx.expect[nid] = (k, [], {"obj": "YNode", "objs": "YNodeS"}[k] if yflavour else {"obj": "Node", "objs": "NodeS", "m": "dict"}[k])
            if yflavour:
                ctx.cl.add("yamlobject-instance")
            parts = []
            used = set()
            for i, (kn, vn) in enumerate(n[2]):
                if kn[0] in ("obj", "objs"):
                    if "<obj>" in used or k != "m":
                        kn = ("s", False)
                    else:
                        used.add("<obj>")
                        ctx.cl.add("instance-as-key")
                if kn[0] in ("obj", "objs"):
                    kt, kid = render_node(ctx, kn)
                    vt, vid = render_node(ctx, vn)
                    parts.append("? %s : %s" % (kt, vt))
                else:
                    kt, kid = render_key(ctx, kn, used)
                    vt, vid = render_node(ctx, vn)
                    parts.append("%s: %s" % (kt, vt))
                ctx.expect[nid][1].append((kid, vid))
            if k == "m" and nid % 4 == 1:
                # a merge key in the mapping (a quarter of the plain mappings, a pure function of the graph): the merged-in entry is
                # one more scalar pair of the loaded dict; identity of everything inside and outside the mapping must not change
                mk, mv = _new(ctx, "s"), _new(ctx, "s")
                ctx.expect[mk] = ("s", "mg%d" % nid)
                ctx.expect[mv] = ("s", "mgv")
                ctx.expect.setdefault("merged", set()).add(mk)
                ctx.expect[nid][1].append((mk, mv))
                src = "<<: {mg%d: mgv}" % nid if nid % 8 == 1 else "<<: [{mg%d: mgv}, {mg%d: other}]" % (nid, nid)
                parts.insert((nid // 8) % (len(parts) + 1), src)
                ctx.cl.add("merge-key-in-mapping")
                if any(vn[0] == "a" or (isinstance(vn[1], bool) and vn[1]) for _, vn in n[2]):
                    ctx.cl.add("merge-key-beside-anchor-or-alias")
            if k == "objs":
                ctx.has_objs = True
            tag = {"obj": "!!python/object:canary_objs.Node ", "objs": "!!python/object:canary_objs.NodeS ", "m": ""}[k]
            if yflavour:
                tag = {"obj": "!ynode ", "objs": "!ynodes "}[k]
            return anchor + tag + "{" + ", ".join(parts) + "}", nid
        if k == "set":
            ctx.expect[nid] = (k, [])
            parts = []
            used = set()
            for c in n[2]:
                t, cid = render_key(ctx, c, used)
                parts.append("? " + t)
                ctx.expect[nid][1].append(cid)
            return anchor + "!!set {" + ", ".join(parts) + "}", nid
        if k == "o":
            kind = n[3]
            ctx.expect[nid] = ("o", [])
            parts = []
            used = set()
            for kn, vn in n[2]:
                kt, kid = render_key(ctx, kn, used)
                vt, vid = render_node(ctx, vn)
                parts.append("{%s: %s}" % (kt, vt))
                ctx.expect[nid][1].append((kid, vid))
            return anchor + "!!%s [" % kind + ", ".join(parts) + "]", nid
    finally:
        ctx.stack.pop()
    raise AssertionError(n)


def render_key(ctx, kn, used):
    """Keys of one mapping/set are distinct strings: an alias to a scalar already used as a key here becomes a fresh scalar."""
    t, kid = render_node(ctx, kn, keypos=True)
    if ctx.expect[kid][1] in used:
        t, kid = render_node(ctx, ("s", False), keypos=True)
    used.add(ctx.expect[kid][1])
    return t, kid


def level_of(n):
    k = n[0]
    if k in ("a", "s"):
        return 0
    lv = {"t": 1, "obj": 2, "objs": 2}.get(k, 0)
    if k in ("obj", "objs") and len(n) > 3 and n[3] == "y":
        lv = 0
    if k in ("q", "t", "set"):
        return max([lv] + [level_of(c) for c in n[2]])
    return max([lv] + [max(level_of(a), level_of(b)) for a, b in n[2]])


def render(case):
    """-> (text, [ (root id, expect) per document ], classes, through_tuple, level)"""
    docs, block, defect = case
    out = []
    roots = []
    cl = set()
    through = False
    deep_known = False
    level = 0
    prev_anchor = None
    defect_kind = None
    for i, d in enumerate(docs):
        ctx = Ctx(block)
        text, rid = render_node(ctx, d)
        level = max(level, level_of(d))
        cl |= ctx.cl
        through = through or ctx.through_tuple
        deep_known = deep_known or (ctx.has_objs and ctx.has_cycle)
        if defect is not None and i == len(docs) - 1:
            kind, r = defect
            names = [a[0] for a in ctx.opened]
            if kind == "forward" and "*" in text:
                # point the first alias at an anchor that is defined later (or never)
                pos = text.index("*")
                end = pos + 1
                while end < len(text) and text[end].isalnum():
                    end += 1
                later = [nm for nm in names if text.find("&" + nm + " ") > pos]
                new = later[r % len(later)] if later and r % 3 else "zz9"
                text = text[:pos] + "*" + new + text[end:]
                defect_kind = "undefined-alias"
            elif kind == "crossdoc" and prev_anchor and prev_anchor not in names:
                text = "[%s, *%s]" % (text, prev_anchor)
                defect_kind = "cross-document-alias"
            elif kind == "duplicate" and len(names) >= 2:
                a, b = names[r % len(names)], names[(r + 1) % len(names)]
                if a != b:
                    text = text.replace("&%s " % b, "&%s " % a, 1)
                    defect_kind = "duplicate-anchor"
            elif kind == "selfkey":
                form = r % 4
                inner = text
                text = ["&s1 {? *s1 : %s}", "&s1 [{? *s1 : %s}]", "&s1 !!set {? *s1, ? %s}", "&s1 {k: {? *s1 : %s}}"][form] % inner
                defect_kind = "container-as-own-key"
        if ctx.opened:
            prev_anchor = ctx.opened[-1][0]
        roots.append((rid, ctx.expect))
        out.append(text)
    # a third of the documents stand behind a directive line (a pure function of the text): anchors obey the same rules whatever
    # %YAML version or %TAG handles a document declares
    from vlib.runner import h64
    body = ""
    for i, t in enumerate(out):
        hdr = ["", "", "", "", "%YAML 1.2\n", "%YAML 1.1\n", "%TAG !e! tag:e.org,2000:\n", "%YAML 1.2\n%TAG !e! tag:e.org,2000:\n"][h64(t + str(i)) % 8]
        if hdr:
            cl.add("directive:" + hdr.split()[0] + ("-1.2" if "1.2" in hdr else ""))
            body += ("...\n" if i else "") + hdr + "--- " + t + "\n"
        elif block or i:
            body += "--- %s\n" % t
        else:
            body += t + "\n"
    if defect_kind:
        cl.add("defect:" + defect_kind)
    if deep_known:
        cl.add("cycle-in-document-with-setstate-class")
    return body, roots, cl, through, level, defect_kind


def match(obj, rid, expect, a2p, p2a, path="$"):
    """Parallel walk; None when contents match and the abstract<->object relation stays a bijection."""
    stack = [(obj, rid, path)]
    while stack:
        o, aid, path = stack.pop()
        e = expect[aid]
        kind = e[0]
        if kind == "s":
            if o != e[1] or type(o) is not str:
                return "%s: scalar %r expected, %r found" % (path, e[1], o)
            continue
        if kind != "t":
            if aid in a2p or id(o) in p2a:
                if a2p.get(aid) != id(o) or p2a.get(id(o)) != aid:
                    return "%s: identity: node #%d is %s" % (path, aid, "a different object than at its first occurrence"
                                                             if aid in a2p else "the same object as another node (#%s)" % p2a.get(id(o)))
                continue
            a2p[aid] = id(o)
            p2a[id(o)] = aid
        else:
            if aid in a2p:
                continue
            a2p[aid] = id(o)
        if kind in ("q", "t"):
            want = list if kind == "q" else tuple
            if type(o) is not want or len(o) != len(e[1]):
                return "%s: %s of %d items expected, found %.60r" % (path, want.__name__, len(e[1]), o)
            for i, (x, cid) in enumerate(zip(o, e[1])):
                stack.append((x, cid, "%s[%d]" % (path, i)))
        elif kind in ("m", "obj", "objs"):
            d = o
            if kind != "m":
                if type(o).__name__ != e[2]:
                    return "%s: %s instance expected, found %.60r" % (path, kind, o)
                d = o.__dict__
            elif type(o) is not dict:
                return "%s: dict expected, found %.60r" % (path, o)
            if len(d) != len(e[1]):
                return "%s: %d entries expected, found %.80r" % (path, len(e[1]), d)
            for kid, vid in e[1]:
                if expect[kid][0] in ("obj", "objs"):
                    cands = [x for x in d if type(x).__name__ in ("Node", "NodeS", "YNode", "YNodeS")]
                    if len(cands) != 1:
                        return "%s: exactly one instance key expected, found %.80r" % (path, list(d))
                    stack.append((cands[0], kid, "%s.<instance key>" % path))
                    stack.append((d[cands[0]], vid, "%s[<instance key>]" % path))
                    continue
                key = expect[kid][1]
                if key not in d:
                    return "%s: key %r missing from %.80r" % (path, key, list(d))
                stack.append((d[key], vid, "%s[%r]" % (path, key)))
        elif kind == "set":
            want = {expect[c][1] for c in e[1]}
            if type(o) is not set or o != want:
                return "%s: set %r expected, found %.80r" % (path, want, o)
        elif kind == "o":
            if type(o) is not list or len(o) != len(e[1]):
                return "%s: list of %d pairs expected, found %.80r" % (path, len(e[1]), o)
            for i, (x, (kid, vid)) in enumerate(zip(o, e[1])):
                if type(x) is not tuple or len(x) != 2 or x[0] != expect[kid][1]:
                    return "%s[%d]: pair with key %r expected, found %.60r" % (path, i, expect[kid][1], x)
                stack.append((x[1], vid, "%s[%d].value" % (path, i)))
    return None


def match_nodes(node, rid, expect, a2p, p2a, path="$"):
    """The same relation on a composed node graph (every node kind, scalars included: the composer shares them too)."""
    stack = [(node, rid, path)]
    while stack:
        o, aid, path = stack.pop()
        e = expect[aid]
        if aid in a2p or id(o) in p2a:
            if a2p.get(aid) != id(o) or p2a.get(id(o)) != aid:
                return "%s: node identity differs for #%d" % (path, aid)
            continue
        a2p[aid] = id(o)
        p2a[id(o)] = aid
        kind = e[0]
        if kind == "s":
            if o.id != "scalar" or o.value != e[1]:
                return "%s: scalar node %r expected, found %s %.40r" % (path, e[1], o.id, o.value)
        elif kind in ("q", "t", "o"):
            if o.id != "sequence" or len(o.value) != len(e[1]):
                return "%s: sequence node of %d expected" % (path, len(e[1]))
            for i, (x, c) in enumerate(zip(o.value, e[1])):
                if kind == "o":
                    if x.id != "mapping" or len(x.value) != 1:
                        return "%s[%d]: single-pair mapping expected" % (path, i)
                    # the entry mapping itself has no abstract id; descend into its key and value
                    stack.append((x.value[0][0], c[0], "%s[%d].k" % (path, i)))
                    stack.append((x.value[0][1], c[1], "%s[%d].v" % (path, i)))
                else:
                    stack.append((x, c, "%s[%d]" % (path, i)))
        elif kind in ("m", "obj", "objs"):
            merged = expect.get("merged", ())
            want = [pr for pr in e[1] if pr[0] not in merged]
            have = [pr for pr in o.value if pr[0].tag != T + "merge"] if o.id == "mapping" else []
            if o.id != "mapping" or len(have) != len(want) or len(o.value) - len(have) != len(e[1]) - len(want):
                return "%s: mapping node of %d expected" % (path, len(e[1]))
            for i, ((kn, vn), (kid, vid)) in enumerate(zip(have, want)):
                stack.append((kn, kid, "%s{%d}.k" % (path, i)))
                stack.append((vn, vid, "%s{%d}.v" % (path, i)))
        elif kind == "set":
            if o.id != "mapping" or len(o.value) != len(e[1]):
                return "%s: mapping node of %d expected" % (path, len(e[1]))
            for i, ((kn, vn), kid) in enumerate(zip(o.value, e[1])):
                stack.append((kn, kid, "%s{%d}.k" % (path, i)))
    return None


class Rejected(Exception):
    pass


def simulate(rid, expect):
    """Reference model of the documented two-phase construction: containers and instances are created first and filled
    later (their node is resolvable by aliases in between); tuples, and everything constructed in *deep* mode (the state of a
    class with __setstate__), are finished before they become resolvable.  An alias to a node that is being constructed but
    is not yet resolvable cannot be built ('found unconstructable recursive node').  Returns the list of (alias target id,
    through) rejections - empty when the document must load."""
    done, busy = set(), set()
    deferred = []
    state = {"deep": False}
    gen_kinds = ("q", "m", "set", "o", "obj", "objs")

    def children(aid, deep_children):
        e = expect[aid]
        k = e[0]
        if k in ("q", "t", "set"):
            for c in e[1]:
                construct(c, deep_children)
        else:
            for kid, vid in e[1]:
                construct(kid, deep_children)
                construct(vid, deep_children)

    def phase2(aid):
        children(aid, expect[aid][0] == "objs")

    def construct(aid, deep=False):
        if aid in done:
            return
        old = state["deep"]
        if deep:
            state["deep"] = True
        try:
            if aid in busy:
                raise Rejected(aid)
            busy.add(aid)
            k = expect[aid][0]
            if k == "s":
                pass
            elif k == "t":
                children(aid, False)
            elif k in gen_kinds:
                if state["deep"]:
                    phase2(aid)
                else:
                    deferred.append(aid)
            done.add(aid)
            busy.discard(aid)
        finally:
            if deep:
                state["deep"] = old

    try:
        construct(rid)
        while deferred:
            batch = list(deferred)
            del deferred[:]
            for aid in batch:
                phase2(aid)
    except Rejected as r:
        return r.args[0]
    return None


def loader_legs(level):
    import yaml
    legs = []
    c = have_c()
    if level <= 0:
        legs.append(("SafeLoader", yaml.SafeLoader))
        if c:
            legs.append(("CSafeLoader", yaml.CSafeLoader))
    if level <= 1:
        legs.append(("FullLoader", yaml.FullLoader))
        if c:
            legs.append(("CFullLoader", yaml.CFullLoader))
    legs.append(("UnsafeLoader", yaml.UnsafeLoader))
    if c:
        legs.append(("CUnsafeLoader", yaml.CUnsafeLoader))
    return legs


def _paths():
    d = os.path.join(os.path.dirname(os.path.dirname(os.path.abspath(__file__))), "canaries")
    if d not in sys.path:
        sys.path.append(d)
    import canary_objs  # noqa: F401
    import canary_yobjs  # noqa: F401


def eval_case(case):
    import yaml
    _paths()
    text, roots, cl, through, level, defect = render(case)
    cl = set(cl)
    cl.add("level:%s" % ["safe", "full", "unsafe"][level])
    if len(roots) > 1:
        cl.add("docs=2")
    if len(roots) > 2:
        cl.add("docs=3")
    failures = []
    evals = 0
    budget = 20000 + 4000 * len(text)
    # delivery form (a pure function of the document): the text itself, or a text / byte stream whose read() returns
    # small pieces, so that anchor and alias names straddle the reader's refills
    from checks.c07 import ChunkedText, ChunkedBytes
    from vlib.runner import h64
    hv = h64(text)
    form = hv % 3
    piece = 1 + (hv // 3) % 7
    cl.add("delivery:%s" % ["str", "text-stream-in-pieces", "byte-stream-in-pieces"][form])

    def deliver():
        if form == 0:
            return text
        if form == 1:
            return ChunkedText(text, [piece])
        return ChunkedBytes(text.encode("utf-8"), [piece])
    # what the documented construction order can build: index of the first document that must be rejected, if any
    rejected_doc = None
    for i, (rid, expect) in enumerate(roots):
        target = simulate(rid, expect)
        if target is not None:
            rejected_doc = i
            kind = expect[target][0]
            cl.add("model-rejects:cycle-closes-on-%s" % ("tuple" if kind == "t" else "node-built-in-deep-mode"))
            break
    through = rejected_doc is not None
    # node graphs
    if defect is None:
        for cname, L in [("py", yaml.Loader)] + ([("c", yaml.CLoader)] if have_c() else []):
            evals += 1
            try:
                nodes = list(yaml.compose_all(deliver(), Loader=L))
            except RecursionError:
                raise
            except Exception as e:
                failures.append(Failure("compose-rejects-well-formed:%s:%s" % (cname, exc_key(e)), "%s\ntext=%r" % (exc_msg(e), text[:300])))
                continue
            for i, (nd, (rid, expect)) in enumerate(zip(nodes, roots)):
                d = match_nodes(nd, rid, expect, {}, {})
                if d:
                    failures.append(Failure("node-graph:%s" % cname, "document %d: %s\ntext=%r" % (i, d, text[:300])))
                    break
    for lname, L in loader_legs(level):
        evals += 1
        exc = None
        got = None
        try:
            with CallBudget(budget if not lname.startswith("C") else None):
                got = list(yaml.load_all(deliver(), Loader=L))
        except BudgetExceeded as e:
            failures.append(Failure("call-budget-exceeded:%s" % lname, "more than %d calls\ntext=%r" % (budget, text[:300])))
            continue
        except RecursionError as e:
            failures.append(Failure("RecursionError:%s" % lname, "text=%r" % text[:300]))
            continue
        except Exception as e:
            exc = e
        if defect is not None:
            want = yaml.constructor.ConstructorError if defect == "container-as-own-key" else yaml.composer.ComposerError
            if exc is None:
                failures.append(Failure("defect-accepted:%s:%s" % (defect, lname), "loaded %.100r\ntext=%r" % (got, text[:300])))
            elif through and isinstance(exc, yaml.constructor.ConstructorError) and "unconstructable recursive" in str(exc):
                pass        # an earlier document is rejected first, as the model says
            elif not isinstance(exc, want):
                failures.append(Failure("defect-wrong-error:%s:%s:%s" % (defect, lname, type(exc).__name__), "%s\ntext=%r" % (exc_msg(exc), text[:300])))
            continue
        if through:
            # the model says document #rejected_doc cannot be built: exactly ConstructorError is expected
            if exc is None:
                failures.append(Failure("unbuildable-cycle-accepted:%s" % lname, "loaded %.120r\ntext=%r" % (got, text[:300])))
            elif not (isinstance(exc, yaml.constructor.ConstructorError) and "unconstructable recursive" in str(exc)):
                failures.append(Failure("unbuildable-cycle-wrong-error:%s:%s" % (lname, exc_key(exc)), "%s\ntext=%r" % (exc_msg(exc), text[:300])))
            continue
        if exc is not None:
            failures.append(Failure("well-formed-rejected:%s:%s" % (lname, exc_key(exc)), "%s\ntext=%r" % (exc_msg(exc), text[:300])))
            continue
        if len(got) != len(roots):
            failures.append(Failure("document-count:%s" % lname, "%d != %d\ntext=%r" % (len(got), len(roots), text[:300])))
            continue
        for i, (o, (rid, expect)) in enumerate(zip(got, roots)):
            d = match(o, rid, expect, {}, {})
            if d:
                kind = "identity" if "identity" in d else "content"
                failures.append(Failure("%s:%s" % (kind, lname), "document %d: %s\nloaded %.120r\ntext=%r" % (i, d, o, text[:300])))
                break
    nt = "alias-to-container" in cl or defect is not None
    return Eval(failures, sorted(cl), nontrivial=nt, ident=text, evals=evals, sample={"text": text[:300]})



# ---------------------------------------------------------------------------------------------------------------------------
# coverage-guided 'texts' arm: arbitrary texts, judged through an independent reference composer over the parser's events

CORE_COLLECTION_TAGS = {"sequence": {None: "q", "!": "q", T + "seq": "q", T + "omap": "o", T + "pairs": "o"},
                        "mapping": {None: "m", "!": "m", T + "map": "m", T + "set": "set"}}
CORE_SCALAR_TAGS = {None, "!", T + "str", T + "int", T + "float", T + "null", T + "bool", T + "binary", T + "timestamp"}


class _Skip(Exception):
    pass


def ref_compose_documents(events):
    """Reference composer written for this arm: event list -> [(root id | ('error', what), nodes)] per document.  Anchors live for
    one document; an alias to a name not defined so far in the document and a second definition of a name are errors (the
    statement of C13).  nodes: id -> ('s', value, tag, plain_implicit) | ('q'|'o', tag, [ids]) | ('m'|'set', tag, [(kid, vid)])
    | ('x', ...) for collections with a tag this arm does not model (the document is then skipped, not judged)."""
    import yaml
    docs = []
    i = 0
    n = len(events)
    while i < n:
        ev = events[i]
        if not isinstance(ev, yaml.DocumentStartEvent):
            i += 1
            continue
        i += 1
        nodes = {}
        anchors = {}
        error = None
        root = None
        stack = []      # [kind, id, pending key id | None]

        def attach(nid):
            nonlocal root
            if not stack:
                root = nid
                return
            top = stack[-1]
            e = nodes[top[1]]
            if e[0] in ("q", "o", "xq"):
                e[2].append(nid)
            else:
                if top[2] is None:
                    top[2] = nid
                else:
                    e[2].append((top[2], nid))
                    top[2] = None

        while i < n and not isinstance(events[i], yaml.DocumentEndEvent):
            ev = events[i]
            i += 1
            if error is not None:
                continue
            if isinstance(ev, yaml.AliasEvent):
                if ev.anchor not in anchors:
                    error = "undefined-alias"
                    continue
                attach(anchors[ev.anchor])
                continue
            if isinstance(ev, (yaml.SequenceEndEvent, yaml.MappingEndEvent)):
                stack.pop()
                continue
            nid = len(nodes) + 1
            if ev.anchor is not None:
                if ev.anchor in anchors:
                    error = "duplicate-anchor"
                    continue
                anchors[ev.anchor] = nid
            if isinstance(ev, yaml.ScalarEvent):
                nodes[nid] = ("s", ev.value, ev.tag, bool(ev.implicit[0]) and ev.tag is None)
                attach(nid)
            elif isinstance(ev, yaml.SequenceStartEvent):
                k = CORE_COLLECTION_TAGS["sequence"].get(ev.tag, "xq")
                nodes[nid] = (k, ev.tag, [])
                attach(nid)
                stack.append([k, nid, None])
            else:
                k = CORE_COLLECTION_TAGS["mapping"].get(ev.tag, "xm")
                nodes[nid] = (k, ev.tag, [])
                attach(nid)
                stack.append([k, nid, None])
        i += 1
        docs.append((("error", error) if error else root, nodes))
    return docs


def _judgeable(root, nodes):
    """None when the identity walk applies to the document; otherwise the reason it is only counted."""
    for nid, e in nodes.items():
        k = e[0]
        if k in ("xq", "xm"):
            return "collection-with-non-core-tag"
        if k == "s":
            if e[2] not in CORE_SCALAR_TAGS:
                return "scalar-with-non-core-tag"
        elif k in ("m", "set"):
            for kid, vid in e[2]:
                ke = nodes[kid]
                if ke[0] != "s":
                    return "collection-as-key"
                if ke[1] in ("<<", "=") and ke[3]:
                    return "merge-or-value-key"
                if ke[2] in (T + "merge", T + "value"):
                    return "merge-or-value-key"
        elif k == "o":
            for cid in e[2]:
                ce = nodes[cid]
                if ce[0] != "m" or len(ce[2]) != 1:
                    return "omap-entry-shape"
    return None


def match_text(obj, root, nodes):
    """Parallel walk of the loaded object and the reference graph: the relation reference node <-> Python object over lists,
    dicts, sets and omap/pairs lists must be a bijection.  Scalar contents are C08's / C14's subject and are not compared."""
    a2p, p2a = {}, {}
    stack = [(obj, root, "$")]
    shared = False
    while stack:
        o, nid, path = stack.pop()
        e = nodes[nid]
        k = e[0]
        if k == "s":
            continue
        if nid in a2p or id(o) in p2a:
            if a2p.get(nid) != id(o) or p2a.get(id(o)) != nid:
                return ("%s: identity: reference node #%d is %s" % (path, nid, "a different object than at its first occurrence"
                        if nid in a2p else "the same object as another node (#%s)" % p2a.get(id(o)))), shared
            shared = True
            continue
        a2p[nid] = id(o)
        p2a[id(o)] = nid
        if k == "q":
            if type(o) is not list or len(o) != len(e[2]):
                return "%s: list of %d items expected, found %.60r" % (path, len(e[2]), o), shared
            for j, (x, c) in enumerate(zip(o, e[2])):
                stack.append((x, c, "%s[%d]" % (path, j)))
        elif k == "m":
            if type(o) is not dict:
                return "%s: dict expected, found %.60r" % (path, o), shared
            if len(o) == len(e[2]):       # (equal keys collapse: which entry survives is C14's subject)
                for j, (x, (kid, vid)) in enumerate(zip(list(o.values()), e[2])):
                    stack.append((x, vid, "%s{%d}" % (path, j)))
        elif k == "set":
            if type(o) is not set:
                return "%s: set expected, found %.60r" % (path, o), shared
        elif k == "o":
            if type(o) is not list or len(o) != len(e[2]):
                return "%s: list of %d pairs expected, found %.60r" % (path, len(e[2]), o), shared
            for j, (x, c) in enumerate(zip(o, e[2])):
                if type(x) is not tuple or len(x) != 2:
                    return "%s[%d]: pair expected, found %.60r" % (path, j, x), shared
                stack.append((x[1], nodes[c][2][0][1], "%s[%d].value" % (path, j)))
    return None, shared


def match_text_nodes(node, root, nodes):
    """The composed node graph against the reference graph: kinds, scalar values, child counts and node identity (every kind)."""
    a2p, p2a = {}, {}
    stack = [(node, root, "$")]
    while stack:
        o, nid, path = stack.pop()
        e = nodes[nid]
        if nid in a2p or id(o) in p2a:
            if a2p.get(nid) != id(o) or p2a.get(id(o)) != nid:
                return "%s: node identity differs for reference node #%d" % (path, nid)
            continue
        a2p[nid] = id(o)
        p2a[id(o)] = nid
        k = e[0]
        if k == "s":
            if o.id != "scalar" or o.value != e[1]:
                return "%s: scalar node %r expected, found %s %.40r" % (path, e[1], o.id, o.value)
        elif k in ("q", "o", "xq"):
            if o.id != "sequence" or len(o.value) != len(e[2]):
                return "%s: sequence node of %d items expected, found %s" % (path, len(e[2]), o.id)
            for j, (x, c) in enumerate(zip(o.value, e[2])):
                stack.append((x, c, "%s[%d]" % (path, j)))
        else:
            if o.id != "mapping" or len(o.value) != len(e[2]):
                return "%s: mapping node of %d entries expected, found %s" % (path, len(e[2]), o.id)
            for j, ((kn, vn), (kid, vid)) in enumerate(zip(o.value, e[2])):
                stack.append((kn, kid, "%s{%d}.k" % (path, j)))
                stack.append((vn, vid, "%s{%d}.v" % (path, j)))
    return None


def _ev_summary(events):
    out = []
    for e in events:
        out.append((type(e).__name__, getattr(e, "anchor", None), getattr(e, "tag", None), getattr(e, "value", None),
                    getattr(e, "implicit", None) if not hasattr(e, "explicit") else None))
    return out


def eval_text(text):
    import yaml
    try:
        events = list(yaml.parse(text, Loader=yaml.SafeLoader))
    except (yaml.YAMLError, RecursionError):
        return Eval([], ["text", "text:not-parsed"], nontrivial=False, ident=text, evals=1)
    ref = ref_compose_documents(events)
    cl = {"text"}
    if not ref:
        return Eval([], ["text", "text:no-document"], nontrivial=False, ident=text, evals=1)
    legs = [("SafeLoader", yaml.SafeLoader), ("FullLoader", yaml.FullLoader), ("UnsafeLoader", yaml.UnsafeLoader)]
    if have_c():
        # the LibYAML legs take part when LibYAML's parser reads the text as the same events (other texts are C06's subject)
        try:
            if _ev_summary(yaml.parse(text, Loader=yaml.CSafeLoader)) == _ev_summary(events):
                legs += [("CSafeLoader", yaml.CSafeLoader), ("CFullLoader", yaml.CFullLoader)]
                cl.add("text:both-back-ends")
        except (yaml.YAMLError, UnicodeDecodeError):
            pass
    failures = []
    evals = 1
    nontrivial = False
    reasons = [None if isinstance(r, tuple) else _judgeable(r, nodes) for r, nodes in ref]
    any_python_tag = any(isinstance(e, tuple) and isinstance(e[2 if e[0] == "s" else 1], str) and "python/" in e[2 if e[0] == "s" else 1]
                         for _, nodes in ref for e in nodes.values())
    for name, L in legs:
        if any_python_tag and ("Unsafe" in name or "Full" in name):
            continue            # (a text that names Python objects is C04's / C17's subject; nothing named by a text is run here)
        budget = 20000 + 4000 * len(text)
        # --- composed node graphs
        evals += 1
        k = 0
        try:
            with CallBudget(budget):
                it = yaml.compose_all(text, Loader=L)
                for k, (r, nodes) in enumerate(ref):
                    if isinstance(r, tuple):
                        try:
                            got = next(it)
                        except yaml.composer.ComposerError:
                            cl.add("text:defect:" + r[1])
                            nontrivial = True
                            break
                        failures.append(Failure("text:ill-formed-composed:%s:%s" % (r[1], name),
                                                "document %d has an %s but compose_all delivered %.80r for %r" % (k, r[1], got, text)))
                        break
                    try:
                        node = next(it)
                    except StopIteration:
                        failures.append(Failure("text:document-missing:compose:%s" % name, "document %d of %r not delivered" % (k, text)))
                        break
                    if r is None:
                        continue
                    m = match_text_nodes(node, r, nodes)
                    if m:
                        failures.append(Failure("text:nodes-differ:%s:%s" % (name, m.split(":")[1].strip()[:24]), "%s in %r" % (m, text)))
                        break
        except BudgetExceeded:
            failures.append(Failure("text:budget:compose:%s" % name, "call budget exceeded composing %r" % text))
        except yaml.YAMLError as e:
            failures.append(Failure("text:compose-rejects-well-formed:%s:%s" % (name, type(e).__name__),
                                    "document %d of %r has defined, unique anchors but compose_all raised %s" % (k, text, exc_msg(e))))
        # --- loaded objects
        evals += 1
        k = 0
        try:
            with CallBudget(budget):
                it = yaml.load_all(text, Loader=L)
                for k, (r, nodes) in enumerate(ref):
                    if isinstance(r, tuple):
                        try:
                            got = next(it)
                        except yaml.composer.ComposerError:
                            break
                        failures.append(Failure("text:ill-formed-loaded:%s:%s" % (r[1], name),
                                                "document %d has an %s but load_all delivered %.80r for %r" % (k, r[1], got, text)))
                        break
                    try:
                        obj = next(it)
                    except StopIteration:
                        failures.append(Failure("text:document-missing:load:%s" % name, "document %d of %r not delivered" % (k, text)))
                        break
                    except yaml.composer.ComposerError as e:
                        failures.append(Failure("text:load-rejects-well-formed:%s" % name,
                                                "document %d of %r has defined, unique anchors but load_all raised %s" % (k, text, exc_msg(e))))
                        break
                    except yaml.constructor.ConstructorError as e:
                        if reasons[k] is None and "recursive" in str(e.problem):
                            failures.append(Failure("text:buildable-cycle-rejected:%s" % name,
                                                    "document %d of %r (scalar keys, core tags) was rejected: %s" % (k, text, exc_msg(e))))
                        cl.add("text:constructor-error")
                        break
                    if r is None:
                        continue
                    if reasons[k] is not None:
                        cl.add("text:not-judged:" + reasons[k])
                        continue
                    m, shared = match_text(obj, r, nodes)
                    if shared:
                        cl.add("text:alias-to-container")
                        nontrivial = True
                    if m:
                        failures.append(Failure("text:identity:%s:%s" % (name, m.split(":")[1].strip()[:24]), "%s in %r" % (m, text)))
                        break
        except BudgetExceeded:
            failures.append(Failure("text:budget:load:%s" % name, "call budget exceeded loading %r" % text))
        except yaml.YAMLError:
            cl.add("text:other-yaml-error")
    return Eval(failures, sorted(cl), nontrivial=nontrivial, ident=text, evals=evals)


def text_campaign(shard, nshards, tier):
    from vlib import greybox
    return greybox.campaign(shard, nshards, tier, PROPERTY, "texts", quick=10000, thorough=500000, valid_only=True, extra_seeds=TEXT_SEEDS)


TEXT_SEEDS = ["&a [1, *a]\n", "- &a {k: v}\n- *a\n- [*a, *a]\n", "&a {k: *a, l: [*a]}\n", "a: &x [1]\nb: *x\nc: [*x, &y {}, *y]\n",
              "--- &a [*a]\n--- &a {k: *a}\n", "!!set &s {a, b}\n", "- !!omap [a: &v [1], b: *v]\n- *v\n", "- &s !!set {a}\n- *s\n",
              "&a\n- &b\n  - *a\n  - *b\n- *b\n", "? &k key\n: &v [*k]\nother: *v\n", "- &p !!pairs [a: &q {x: *p}]\n- *q\n",
              "- &a a\n- &a b\n", "- *a\n", "--- &a [x]\n--- *a\n", "[&a [], &b [], *a, *b]\n", "{a: &a {}, b: &b {}, c: *a, d: *b}\n"]


def graphs(max_leaves=12):
    anc = st.sampled_from([False, True, True])
    scalar = st.tuples(st.just("s"), st.sampled_from([False, False, True]))
    alias = st.integers(0, 40).map(lambda n: ("a", n))
    leaf = st.one_of(scalar, scalar, alias, alias)
    key = st.one_of(scalar, scalar, scalar, alias)
    skey = st.tuples(st.just("s"), st.just(False))

    def extend(ch):
        return st.one_of(
            st.tuples(st.just("q"), anc, st.lists(ch, max_size=4)),
            st.tuples(st.just("q"), anc, st.lists(ch, max_size=4)),
            st.tuples(st.just("m"), anc, st.lists(st.tuples(key, ch), max_size=4)),
            st.tuples(st.just("m"), anc, st.lists(st.tuples(key, ch), max_size=4)),
            st.tuples(st.just("set"), anc, st.lists(key, max_size=3)),
            st.tuples(st.just("o"), anc, st.lists(st.tuples(key, ch), max_size=3), st.sampled_from(["omap", "pairs"])),
            st.tuples(st.just("t"), anc, st.lists(ch, max_size=3)),
            st.tuples(st.sampled_from(["obj", "objs"]), anc, st.lists(st.tuples(skey, ch), max_size=3)),
            st.tuples(st.sampled_from(["obj", "objs"]), anc, st.lists(st.tuples(skey, ch), max_size=3), st.just("y")),
            st.tuples(st.just("m"), anc, st.lists(st.tuples(st.one_of(key, st.tuples(st.sampled_from(["obj", "objs"]), anc, st.lists(st.tuples(skey, ch), max_size=2))), ch), max_size=3)))
    return st.recursive(leaf, extend, max_leaves=max_leaves)


def wellformed_cases():
    return st.tuples(st.lists(graphs(), min_size=1, max_size=2), st.booleans(), st.none())


def stateful_then_recursive_cases():
    """A document whose instance (plain or with __setstate__) holds one anchored container twice, followed by a document that is
    a self-referential collection: what the construction of one document leaves behind must not reach the next."""
    scalar = st.tuples(st.just("s"), st.sampled_from([False, False, True]))
    skey = st.tuples(st.just("s"), st.just(False))
    shared = st.one_of(st.tuples(st.just("q"), st.just(True), st.lists(scalar, max_size=3)),
                       st.tuples(st.just("m"), st.just(True), st.lists(st.tuples(skey, scalar), max_size=2)))
    alias = st.integers(0, 40).map(lambda n: ("a", n))
    holder = st.one_of(
        st.tuples(st.sampled_from(["objs", "objs", "obj"]), st.booleans(), st.tuples(st.tuples(skey, shared), st.tuples(skey, alias)).map(list)),
        st.tuples(st.sampled_from(["objs", "obj"]), st.booleans(), st.tuples(st.tuples(skey, shared), st.tuples(skey, alias)).map(list), st.just("y")),
        st.tuples(st.just("q"), st.booleans(), st.tuples(shared, alias, st.tuples(st.just("objs"), st.just(False), st.tuples(st.tuples(skey, alias)).map(list))).map(list)))
    rec = st.one_of(st.tuples(st.just("q"), st.just(True), st.tuples(alias, scalar).map(list)),
                    st.tuples(st.just("m"), st.just(True), st.tuples(st.tuples(skey, alias)).map(list)),
                    st.tuples(st.just("q"), st.just(True), st.tuples(scalar, st.tuples(st.just("m"), st.just(False), st.tuples(st.tuples(skey, alias)).map(list))).map(list)))
    docs = st.one_of(st.tuples(holder, rec).map(list), st.tuples(holder, rec, holder).map(list), st.tuples(graphs(6), holder, rec).map(list))
    return st.tuples(docs, st.booleans(), st.none())


def illformed_cases():
    defect = st.tuples(st.sampled_from(["forward", "crossdoc", "duplicate", "selfkey"]), st.integers(0, 30))
    return st.tuples(st.lists(graphs(8), min_size=1, max_size=2), st.booleans(), defect)


def arms(tier):
    return [Arm("wellformed", eval_case, wellformed_cases, quick=20000, thorough=400000),
            Arm("illformed", eval_case, illformed_cases, quick=8000, thorough=150000),
            Arm("stateful-then-recursive", eval_case, stateful_then_recursive_cases, quick=3000, thorough=100000),
            Arm("texts", eval_text, enum=text_campaign)]


REQUIRED_CLASSES = ["text:alias-to-container", "text:defect:undefined-alias", "text:defect:duplicate-anchor", "merge-key-beside-anchor-or-alias", "directive:%YAML-1.2", "yamlobject-instance", "delivery:text-stream-in-pieces", "delivery:byte-stream-in-pieces", "alias-to-container", "alias-to-finished-container", "alias-to-ancestor", "alias-to-scalar", "defect:undefined-alias", "defect:cross-document-alias",
                    "defect:duplicate-anchor", "defect:container-as-own-key", "level:safe", "level:full", "level:unsafe", "docs=2", "instance-as-key"]


def known_class(arm, case, key):
    return None


def pinned_known(key, rec):
    import yaml
    _paths()
    if key == "deep-construction-rejects-cycle-first-reached-from-setstate-state":
        text = "&a1 !!python/object:canary_objs.NodeS {v1: &a2 [v2, *a2]}"
        try:
            yaml.unsafe_load(text)
            return False
        except yaml.constructor.ConstructorError:
            return True
    return True
