"""C02 - safe dump -> safe load round trip (both back-ends, all four dumper/loader pairs)."""
import datetime
import io
import re

from hypothesis import strategies as st

from vlib import gen_values as gv
from vlib import greybox
from vlib.compare import bisimilar
from vlib.runner import Arm, Eval, Failure
from vlib.util import exc_key, exc_msg, strings_in, objects_in, have_c, has_foldable_more_indented_line

PROPERTY = "C02"
LEVEL = "exploration"
RULE = ("Hypothesis-generated (value blueprint, dump options, stream/no stream) cases; value graphs with DAG sharing "
        "and recursion are built by construction; a second arm places one generated string at 8 nesting shapes. "
        "Each case is dumped by SafeDumper and CSafeDumper and each text loaded by SafeLoader and CSafeLoader; oracle = "
        "type-strict graph bisimulation incl. sharing partition and key order. Non-trivial = a string with a break/"
        "NEL/LS/PS/leading or trailing space/indicator/look-alike/non-ASCII/control character, or sharing/recursion, or "
        "a non-default option; distinct = hash of (blueprint, options).")
ASSUMPTIONS = [
    "ints bounded to 10**1000 (CPython's 4300-digit int<->str limit is an interpreter limit, not PyYAML's)",
    "NaN is not generated as a dict key or set member (cannot be looked up again even in plain Python)",
    "aware datetimes with a non-whole-minute UTC offset are a listed known finding and generated rarely",
]

SHAPES = ["root", "item", "value", "key", "deep3", "deep4", "twice", "keyval"]


def place(s, shape):
    if shape == "root":
        return s
    if shape == "item":
        return [s]
    if shape == "value":
        return {"k": s}
    if shape == "key":
        return {s: 1}
    if shape == "deep3":
        return [[{"k": [s]}]]
    if shape == "deep4":
        return {"a": {"b": [[{s: None}]]}}
    if shape == "twice":
        return [s, s]
    if shape == "keyval":
        return {s: s}
    raise AssertionError(shape)


def dumpers():
    import yaml
    out = [("py", yaml.SafeDumper)]
    if have_c():
        out.append(("c", yaml.CSafeDumper))
    return out


def loaders():
    import yaml
    out = [("py", yaml.SafeLoader)]
    if have_c():
        out.append(("c", yaml.CSafeLoader))
    out.append(("safe_load", None))        # the convenience entry point (safe_load / safe_load_all)
    return out


_interesting = re.compile(r"[^A-Za-z0-9]")


def string_classes(strs, opts):
    cl = set()
    for s in strs:
        if not s:
            cl.add("str:empty")
            continue
        if "\n" in s or "\r" in s:
            cl.add("str:break")
        if "\x85" in s:
            cl.add("str:NEL")
        if "\u2028" in s or "\u2029" in s:
            cl.add("str:LS/PS")
        if s[0] in " \t" or s[-1] in " \t":
            cl.add("str:edge-space")
        if s[0] in "\r\n\x85\u2028\u2029" or s[-1] in "\r\n\x85\u2028\u2029":
            cl.add("str:edge-break")
        if any(ord(c) > 0x7e for c in s):
            cl.add("str:non-ascii")
        if any(ord(c) < 0x20 and c not in "\t\n\r" for c in s) or "\x7f" in s:
            cl.add("str:control")
        if s in gv.LOOKALIKES:
            cl.add("str:lookalike")
        if s[0] in "-?:,[]{}#&*!|>'\"%@`" or ": " in s or " #" in s:
            cl.add("str:indicator")
        if len(s) > 128:
            cl.add("str:len>128")
        lines = re.split("\r\n|[\r\n\x85\u2028\u2029]", s)
        if any(l.startswith(" ") and re.search(r"\S \S", l) for l in lines) and len(lines) > 1:
            cl.add("str:more-indented-line-with-fold-point")
        w = opts.get("width") or 80
        if any(len(l) > w and " " in l.strip() for l in lines):
            cl.add("str:line-longer-than-width")
    return cl


def has_subminute_tz(obj):
    for x in objects_in(obj):
        if isinstance(x, datetime.datetime) and x.tzinfo is not None:
            off = x.utcoffset()
            if off.seconds % 60 or off.microseconds:
                return True
    return False


def c_folded_more_indented(obj, opts):
    if opts.get("default_style") != ">":
        return False
    return any(has_foldable_more_indented_line(s) for s in strings_in(obj))


def sorted_effective(opts):
    return opts.get("sort_keys", True)


def comparable_sorted(keys):
    """The order sort_keys promises, or None when the keys are not mutually comparable."""
    kinds = {type(k) for k in keys}
    if kinds <= {int, float, bool} or len(kinds) <= 1:
        try:
            return sorted(keys)
        except TypeError:
            return None
    return None


def check_sorted(obj):
    """With sort_keys on, every reloaded dict whose keys are mutually comparable is in sorted order."""
    for x in objects_in(obj):
        if isinstance(x, dict) and len(x) > 1:
            ks = list(x)
            exp = comparable_sorted(ks)
            if exp is not None and [repr(k) for k in exp] != [repr(k) for k in ks]:
                return "sort_keys=True but reloaded keys not sorted: %.200r" % ks
    return None


def roundtrip(obj, opts, to_stream, info_classes):
    import yaml
    failures = []
    evals = 0
    kw = dict(opts)
    for dname, D in dumpers():
        try:
            if to_stream:
                stream = io.BytesIO() if kw.get("encoding") else io.StringIO()
                r = yaml.dump(obj, stream, Dumper=D, **kw)
                text = stream.getvalue()
                if r is not None:
                    failures.append(Failure("dump-to-stream-returned-value:%s" % dname, repr(r)[:100]))
            else:
                text = yaml.dump(obj, Dumper=D, **kw)
        except RecursionError:
            raise
        except Exception as e:
            failures.append(Failure("dump-raised:%s:%s" % (dname, exc_key(e)), exc_msg(e)))
            continue
        evals += 1
        if dname == "py" and not to_stream:
            # the convenience entry point is the same operation: safe_dump writes what dump(Dumper=SafeDumper) writes
            evals += 1
            try:
                t2 = yaml.safe_dump(obj, **kw)
            except RecursionError:
                raise
            except Exception as e:
                t2 = "raised %s" % exc_key(e)
            if t2 != text:
                failures.append(Failure("safe_dump-differs-from-dump-with-SafeDumper", "%.200r\n!=\n%.200r" % (t2, text)))
        for lname, L in loaders():
            evals += 1
            try:
                src = text
                if to_stream:
                    # written to a stream, read back from a stream whose read() returns pieces (size: a pure function of the text)
                    from checks.c07 import ChunkedText
                    from vlib.runner import h64
                    src = ChunkedText(text, [[1, 3, 64, 1000, 4096, 100000][h64(text) % 6]])
                back = yaml.safe_load(src) if L is None else yaml.load(src, Loader=L)
            except RecursionError:
                raise
            except Exception as e:
                failures.append(Failure("load-rejects-dump-output:%s>%s:%s:style=%s" % (
                    dname, lname, exc_key(e), opts.get("default_style")),
                    "%s\ntext=%r" % (exc_msg(e), text[:400])))
                continue
            diff = bisimilar(obj, back, key_order=not sorted_effective(opts))
            if diff is None and sorted_effective(opts):
                diff = check_sorted(back)
            if diff is not None:
                m = re.search(r": ([a-z-]+(?:-[A-Za-z]+)?): ", diff)
                kind = m.group(1) if m else "other"
                failures.append(Failure("mismatch:%s>%s:style=%s:%s" % (dname, lname, opts.get("default_style"), kind),
                                        "%s\ntext=%r" % (diff, text[:400])))
    return failures, evals


def eval_value(case):
    bp, opts, to_stream = case
    obj, info = gv.build(bp)
    strs = strings_in(obj)
    cl = string_classes(strs, opts)
    if info["refs"]:
        cl.add("graph:shared")
    if info["recursive"]:
        cl.add("graph:recursive")
    if opts:
        cl.add("opts:non-default")
    for k in ("default_style", "canonical", "encoding", "tags", "width", "indent", "allow_unicode", "line_break"):
        if opts.get(k) is not None:
            cl.add("opt:%s" % k)
    if (opts.get("indent") or 0) >= (opts.get("width") or 80):
        cl.add("opts:indent>=width")
    failures, evals = roundtrip(obj, opts, to_stream, cl)
    return Eval(failures, sorted(cl), nontrivial=bool(cl), ident=(bp, sorted(opts.items(), key=repr)), evals=evals,
                sample={"blueprint": repr(bp)[:300], "options": repr(opts)})


def eval_scalar(case):
    s, shape, opts = case
    obj = place(s, shape)
    cl = string_classes([s], opts)
    cl.add("shape:%s" % shape)
    if (opts.get("indent") or 0) >= (opts.get("width") or 80):
        cl.add("opts:indent>=width")
    failures, evals = roundtrip(obj, opts, False, cl)
    return Eval(failures, sorted(cl), nontrivial=len(cl) > 1 or bool(opts), ident=(s, shape, sorted(opts.items(), key=repr)),
                evals=evals, sample={"string": s[:200], "shape": shape, "options": repr(opts)})


def value_cases():
    return st.tuples(gv.blueprints(max_leaves=20), gv.dump_options(), st.booleans())


def scalar_cases():
    scalar_opts = st.fixed_dictionaries({}, optional={
        "default_style": st.sampled_from([None, '"', "'", "|", ">"]),
        "default_flow_style": st.sampled_from([True, False, None]),
        "canonical": st.sampled_from([None, True]),
        "indent": st.one_of(st.none(), st.integers(0, 12)),
        "width": st.sampled_from([None, 0, 1, 2, 5, 10, 20, 40, 80, 1000]),
        "allow_unicode": st.sampled_from([None, True, False]),
        "line_break": st.sampled_from([None, "\n", "\r", "\r\n"]),
    })
    return st.tuples(gv.text(14), st.sampled_from(SHAPES), scalar_opts)


def tz_cases():
    """Aware datetimes incl. sub-minute offsets (known finding class) at the root or in a list."""
    dt = st.tuples(st.datetimes(min_value=datetime.datetime(2, 1, 1), max_value=datetime.datetime(9998, 1, 1)),
                   gv.tzinfos(allow_seconds=True)).map(lambda t: t[0].replace(tzinfo=t[1]))
    return st.tuples(dt.map(lambda d: ("l", [("s", d)])), st.just({}), st.just(False))


def shared_scalar_cases():
    """One date / datetime object used as a value AND as a mapping key (the representer anchors it, so the key is an alias),
    with scalar, flow and block values after the alias key."""
    d = st.one_of(gv.dates(), gv.datetimes())

    def mk(t):
        v, shape = t
        leaf = ("s", v)
        after = [("l", [("s", "notes"), ("s", 1)]), ("d", [(("s", "k"), ("s", "v"))]), ("s", "plain"), ("l", []), ("s", None)][shape % 5]
        return [("d", [(("s", "released"), leaf), (leaf, after)]),
                ("l", [leaf, ("d", [(leaf, after), (("s", "z"), leaf)])]),
                ("d", [(("s", "a"), ("l", [leaf])), (leaf, after)])][shape % 3]
    return st.tuples(st.tuples(d, st.integers(0, 14)).map(mk), gv.dump_options(), st.booleans())


def stream_of_temporaries_cases():
    return st.tuples(st.lists(gv.blueprints(max_leaves=6), min_size=3, max_size=8), st.one_of(st.sampled_from([{}, {"default_flow_style": True}, {"explicit_start": True}]), gv.dump_options(), gv.dump_options()))


def eval_temporaries(case):
    """safe_dump_all fed by a generator whose documents are built on demand and dropped at once (object ids are reused):
    every document must still round-trip."""
    import yaml
    bps, opts = case
    failures = []
    evals = 0
    expected = [gv.build(bp)[0] for bp in bps]
    for dname, D in dumpers():
        evals += 1
        try:
            text = yaml.dump_all((gv.build(bp)[0] for bp in bps), Dumper=D, **opts)
        except RecursionError:
            raise
        except Exception as e:
            failures.append(Failure("dump_all-generator-raised:%s:%s" % (dname, exc_key(e)), exc_msg(e)))
            continue
        if dname == "py":
            evals += 1
            try:
                t2 = yaml.safe_dump_all((gv.build(bp)[0] for bp in bps), **opts)
            except RecursionError:
                raise
            except Exception as e:
                t2 = "raised %s" % exc_key(e)
            if t2 != text:
                failures.append(Failure("safe_dump_all-differs-from-dump_all-with-SafeDumper", "%.200r\n!=\n%.200r" % (t2, text)))
        for lname, L in loaders():
            evals += 1
            try:
                back = list(yaml.safe_load_all(text) if L is None else yaml.load_all(text, Loader=L))
            except Exception as e:
                failures.append(Failure("load-rejects-dump_all-output:%s>%s:%s" % (dname, lname, exc_key(e)), "%s\ntext=%r" % (exc_msg(e), text[:300])))
                continue
            if len(back) != len(expected):
                failures.append(Failure("temporaries:document-count:%s>%s" % (dname, lname), "%d != %d" % (len(back), len(expected))))
                continue
            for i, (a, b) in enumerate(zip(expected, back)):
                diff = bisimilar(a, b, key_order=False)
                if diff:
                    failures.append(Failure("temporaries:document-differs:%s>%s" % (dname, lname), "document %d: %s\ntext=%r" % (i, diff, text[:300])))
                    break
    return Eval(failures, ["stream-of-temporaries"], nontrivial=True, ident=repr(case), evals=evals,
                sample={"documents": len(bps), "options": repr(opts)})


# values obtained by safe-loading coverage-guided texts: what safe_load returns is a value of the safe universe, except for the
# 2-tuples of !!omap / !!pairs (not part of C02's universe: the safe dumper writes a tuple as a sequence) and NaN keys
LOADED_OPTS = [{}, {"default_flow_style": True}, {"default_flow_style": False}, {"default_style": '"'}, {"default_style": "'"}, {"default_style": "|"},
               {"default_style": ">", "width": 12}, {"canonical": True}, {"allow_unicode": True, "width": 8}, {"indent": 5, "sort_keys": False},
               {"line_break": "\r\n", "explicit_start": True, "explicit_end": True}, {"encoding": "utf-16-le", "version": (1, 1)},
               {"width": 2, "indent": 9}, {"tags": {"!!": "tag:yaml.org,2002:"}, "sort_keys": False}]


def _loaded_objects(text):
    import yaml
    try:
        objs = list(yaml.load_all(text, Loader=yaml.SafeLoader))
    except (yaml.YAMLError, RecursionError):
        return None
    return objs[:3]


def _has_nan_key(obj):
    for x in objects_in(obj):
        if isinstance(x, tuple):
            return True
        if isinstance(x, (dict, set, frozenset)):
            for k in x:
                if isinstance(k, float) and k != k:
                    return True
    return False


def eval_loaded(case):
    text, oi = case
    opts = LOADED_OPTS[oi % len(LOADED_OPTS)]
    objs = _loaded_objects(text)
    if not objs:
        return Eval([], ["loaded", "loaded:text-rejected-or-empty"], nontrivial=False, evals=1)
    failures, evals = [], 1
    cl = {"loaded"}
    for obj in objs:
        if _has_nan_key(obj):
            cl.add("loaded:nan-key-or-omap-tuple-skipped")      # outside the universe of the property, see ASSUMPTIONS
            continue
        cl.add("loaded:root:%s" % type(obj).__name__)
        cl |= {"loaded:" + c for c in string_classes(strings_in(obj), opts)}
        f, e = roundtrip(obj, opts, False, cl)
        failures.extend(f)
        evals += e
    return Eval(failures, sorted(cl), nontrivial=len(cl) > 2, ident=repr(case), evals=evals,
                sample={"text": text[:300], "options": repr(opts), "value": repr(objs[0])[:300]})


def loaded_campaign(shard, nshards, tier):
    from vlib.runner import h64
    return greybox.campaign(shard, nshards, tier, PROPERTY, "loaded", quick=12000, thorough=700000,
                            wrap=lambda t: (t, h64(t) % len(LOADED_OPTS)), valid_only=True)


def arms(tier):
    return [
        Arm("value", eval_value, value_cases, quick=12000, thorough=600000),
        Arm("scalar", eval_scalar, scalar_cases, quick=20000, thorough=900000),
        Arm("tz", eval_value, tz_cases, quick=400, thorough=20000),
        Arm("shared-scalar-key", eval_value, shared_scalar_cases, quick=1500, thorough=50000),
        Arm("temporaries", eval_temporaries, stream_of_temporaries_cases, quick=2500, thorough=80000),
        # coverage-guided texts -> safe_load_all -> values -> round trip (vlib/greybox.py)
        Arm("loaded", eval_loaded, enum=loaded_campaign),
    ]


def known_class(arm, case, key):
    if arm == "temporaries":
        bps, opts = case
        objs = [gv.build(bp)[0] for bp in bps]
        if key.startswith("load-rejects-dump_all-output") and any(has_subminute_tz(o) for o in objs):
            return "datetime-subminute-utcoffset"
        if key.startswith(("temporaries:document-differs:c>", "temporaries:document-count:c>", "load-rejects-dump_all-output:c>")) and any(
                c_folded_more_indented(o, opts) for o in objs):
            return "libyaml-folds-inside-more-indented-line"
        return None
    if arm == "loaded":
        text, oi = case
        opts = LOADED_OPTS[oi % len(LOADED_OPTS)]
        objs = [o for o in (_loaded_objects(text) or []) if not _has_nan_key(o)]
        if key.startswith("load-rejects-dump-output") and any(has_subminute_tz(o) for o in objs):
            return "datetime-subminute-utcoffset"
        if (key.startswith("mismatch:c>") or key.startswith("load-rejects-dump-output:c>")) and any(c_folded_more_indented(o, opts) for o in objs):
            return "libyaml-folds-inside-more-indented-line"
        return None
    if arm in ("value", "tz", "shared-scalar-key"):
        bp, opts, _ = case
        obj, _info = gv.build(bp)
    else:
        s, shape, opts = case
        obj = place(s, shape)
    if key.startswith("load-rejects-dump-output") and has_subminute_tz(obj):
        return "datetime-subminute-utcoffset"
    if (key.startswith("mismatch:c>") or key.startswith("load-rejects-dump-output:c>")) and c_folded_more_indented(obj, opts):
        return "libyaml-folds-inside-more-indented-line"
    return None


def pinned_known(key, rec):
    import yaml
    if key == "datetime-subminute-utcoffset":
        d = datetime.datetime(2001, 1, 1, 10, 0, tzinfo=datetime.timezone(datetime.timedelta(hours=5, minutes=30, seconds=15)))
        try:
            return yaml.safe_load(yaml.safe_dump(d)) != d
        except Exception:
            return True
    if key == "libyaml-folds-inside-more-indented-line":
        if not have_c():
            return False
        s = "a\n  word word word word word word word word end\nb"
        return yaml.load(yaml.dump(s, Dumper=yaml.CSafeDumper, default_style=">", width=20), Loader=yaml.SafeLoader) != s
    return True
