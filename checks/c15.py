"""C15 - dump output honours the formatting options it was given (validity predicates over the raw output)."""
import io
import re

from hypothesis import strategies as st

from vlib import gen_values as gv
from vlib import gen_events as ge
from vlib import canonical_ref
from vlib.runner import Arm, Eval, Failure
from vlib.util import exc_key, exc_msg, have_c, strings_in, shorthand_with_flow_indicator

PROPERTY = "C15"
LEVEL = "exploration"
RULE = ("Hypothesis-generated (documents, options, dumper, stream/no stream) cases at three entry points: dump_all of value "
        "graphs with the full option product (incl. out-of-range indent/width and an invalid line_break), serialize_all of "
        "directly built node graphs, emit of event streams; both dumpers. Oracle = validity predicates over the raw output, "
        "one per clause of the property: (1) the pure-Python scanner accepts it; (2) without allow_unicode only printable "
        "ASCII + CR/LF (+ the UTF-16 BOM); (3) every maximal CR/LF break is the effective line_break; (4) return type / "
        "encoding / BOM; (5) per-document counts of '---', '...', %YAML and %TAG tokens; (6) block-context BLOCK-ENTRY/KEY/"
        "VALUE tokens that start a line sit at a multiple of the effective indent; (7) canonical output is accepted by an "
        "independent recursive-descent parser of the canonical form whose events equal the library's parse of the same text "
        "(and, at event level, the input events). Non-trivial = >= 2 non-default options, or non-ASCII/control "
        "characters in the data, or >= 2 documents; distinct = hash of case.")
ASSUMPTIONS = [
    "the effective indent is the requested one when 2 <= indent <= 9, else 2; the effective line break is the requested one "
    "when it is CR, LF or CRLF, else LF (the rules the property states)",
    "clause (6) is applied to block context only (flow level 0, tracked from the token stream)",
    "a stream argument is only combined with the matching kind (StringIO without encoding, BytesIO with one): what is "
    "written to a caller's stream of the wrong kind is not part of the property",
]

_BRK = re.compile("\r\n|\r|\n")


def dumpers(safe):
    import yaml
    out = [("py", yaml.SafeDumper if safe else yaml.Dumper)]
    if have_c():
        out.append(("c", yaml.CSafeDumper if safe else yaml.CDumper))
    return out


def eff_indent(opts):
    i = opts.get("indent")
    return i if isinstance(i, int) and 2 <= i <= 9 else 2


def eff_break(opts):
    lb = opts.get("line_break")
    return lb if lb in ("\r", "\n", "\r\n") else "\n"


def check_output(out, opts, ndocs, via_stream, dname, failures, input_events=None, tags_per_doc=None, version_per_doc=None,
                 explicit_start=None, explicit_end=None):
    """All predicates of the property over one raw output."""
    import yaml
    enc = opts.get("encoding")
    tag = lambda k: "%s:%s" % (k, dname)
    # (4) type / encoding / BOM
    if not via_stream:
        if enc is None:
            if not isinstance(out, str):
                failures.append(Failure(tag("type-not-str"), "encoding=None returned %s" % type(out).__name__))
                return
        elif not isinstance(out, bytes):
            failures.append(Failure(tag("type-not-bytes"), "encoding=%r returned %s" % (enc, type(out).__name__)))
            return
    if isinstance(out, bytes):
        bom = {"utf-16-le": b"\xff\xfe", "utf-16-be": b"\xfe\xff"}.get(enc)
        if bom is not None:
            if not out.startswith(bom):
                failures.append(Failure(tag("utf16-without-bom"), repr(out[:20])))
                return
            body = out[2:]
        else:
            if out.startswith(b"\xef\xbb\xbf"):
                failures.append(Failure(tag("utf8-with-bom"), repr(out[:20])))
            body = out
        try:
            text = body.decode(enc or "utf-8")
        except UnicodeDecodeError as e:
            failures.append(Failure(tag("not-decodable"), "%s %r" % (e, out[:60])))
            return
        if bom is not None and "\ufeff" in text and not opts.get("allow_unicode"):
            failures.append(Failure(tag("bom-inside"), repr(text[:80])))
    else:
        text = out
    # (2) printable ASCII only
    if not opts.get("allow_unicode"):
        m = re.search("[^\x20-\x7e\r\n]", text)
        if m:
            failures.append(Failure(tag("non-ascii-without-allow_unicode"), "char %r at %d in %r" % (
                m.group(), m.start(), text[max(0, m.start() - 30):m.start() + 30])))
    # (3) line breaks
    lb = eff_break(opts)
    for m in _BRK.finditer(text):
        if m.group() != lb:
            failures.append(Failure(tag("wrong-line-break"), "break %r at %d, requested %r: %r" % (
                m.group(), m.start(), lb, text[max(0, m.start() - 30):m.start() + 30])))
            break
    # (1) our own reader/scanner accepts it
    try:
        tokens = list(yaml.scan(out, Loader=yaml.Loader))
    except RecursionError:
        raise
    except Exception as e:
        failures.append(Failure(tag("scan-rejects-output:%s" % exc_key(e)), "%s\ntext=%r" % (exc_msg(e), text[:400])))
        return
    # (5) markers and directives, per document
    T = yaml.tokens
    docs = []          # per document: dict(start=bool, end=bool, yaml=[...], tag=[...])
    cur = None
    pending = dict(yaml=[], tag=[])
    flow = 0
    line_starts = None
    for tok in tokens:
        if isinstance(tok, T.DirectiveToken):
            if cur is not None and cur.get("open"):
                cur["open"] = False
            (pending["yaml"] if tok.name == "YAML" else pending["tag"]).append(tok.value)
        elif isinstance(tok, T.DocumentStartToken):
            cur = dict(start=True, end=False, yaml=pending["yaml"], tag=pending["tag"], open=True)
            pending = dict(yaml=[], tag=[])
            docs.append(cur)
        elif isinstance(tok, T.DocumentEndToken):
            if cur is None or not cur.get("open"):
                cur = dict(start=False, end=True, yaml=[], tag=[], open=False)
                docs.append(cur)
            else:
                cur["end"] = True
                cur["open"] = False
        elif isinstance(tok, (T.StreamStartToken, T.StreamEndToken)):
            pass
        else:
            if cur is None or not cur.get("open"):
                cur = dict(start=False, end=False, yaml=pending["yaml"], tag=pending["tag"], open=True)
                pending = dict(yaml=[], tag=[])
                docs.append(cur)
    es = explicit_start if explicit_start is not None else [bool(opts.get("explicit_start"))] * ndocs
    ee = explicit_end if explicit_end is not None else [bool(opts.get("explicit_end"))] * ndocs
    vs = version_per_doc if version_per_doc is not None else [opts.get("version")] * ndocs
    ts = tags_per_doc if tags_per_doc is not None else [opts.get("tags")] * ndocs
    if len(docs) != ndocs:
        # an open-ended stream end may add a lone '...' which never forms a document of its own in the grammar;
        # count mismatches are C12's subject, but marker counts cannot be checked without them
        failures.append(Failure(tag("document-count-in-tokens"), "%d documents dumped, %d in the token stream\ntext=%r" % (
            ndocs, len(docs), text[:300])))
    else:
        for i, d in enumerate(docs):
            if es[i] and not d["start"]:
                failures.append(Failure(tag("explicit_start-missing"), "document %d has no '---'\ntext=%r" % (i, text[:300])))
            if ee[i] and not d["end"]:
                failures.append(Failure(tag("explicit_end-missing"), "document %d has no '...'\ntext=%r" % (i, text[:300])))
            if vs[i]:
                if d["yaml"] != [tuple(vs[i])]:
                    failures.append(Failure(tag("version-directive"), "document %d: %%YAML %r, requested %r\ntext=%r" % (
                        i, d["yaml"], vs[i], text[:300])))
            elif d["yaml"]:
                failures.append(Failure(tag("version-directive-unrequested"), "document %d: %%YAML %r\ntext=%r" % (i, d["yaml"], text[:300])))
            want = sorted((ts[i] or {}).items())
            if sorted(tuple(x) for x in d["tag"]) != want:
                failures.append(Failure(tag("tag-directives"), "document %d: %%TAG %r, requested %r\ntext=%r" % (
                    i, d["tag"], want, text[:300])))
    # (6) indentation of block collection entries
    ind = eff_indent(opts)
    flow = 0
    seen_lines = set()
    for tok in tokens:
        if isinstance(tok, (T.FlowSequenceStartToken, T.FlowMappingStartToken)):
            flow += 1
        elif isinstance(tok, (T.FlowSequenceEndToken, T.FlowMappingEndToken)):
            flow -= 1
        line = tok.start_mark.line
        first_on_line = line not in seen_lines
        if not isinstance(tok, (T.BlockMappingStartToken, T.BlockSequenceStartToken, T.BlockEndToken, T.StreamStartToken)):
            seen_lines.add(line)
        else:
            continue
        if flow == 0 and first_on_line and isinstance(tok, (T.BlockEntryToken, T.KeyToken, T.ValueToken)):
            if tok.start_mark.column % ind != 0:
                failures.append(Failure(tag("indentation"), "%s at line %d column %d, effective indent %d\ntext=%r" % (
                    type(tok).__name__, line, tok.start_mark.column, ind, text[:400])))
                break
    # (7) canonical form
    if opts.get("canonical"):
        try:
            ref = canonical_ref.parse(text)
        except canonical_ref.CanonicalError as e:
            failures.append(Failure(tag("canonical-form-rejected"), "%s\ntext=%r" % (e, text[:400])))
            return
        try:
            lib = canonical_ref.from_yaml_events(yaml.parse(out, Loader=yaml.Loader))
        except RecursionError:
            raise
        except Exception as e:
            failures.append(Failure(tag("canonical-output-does-not-parse:%s" % exc_key(e)), "%s\ntext=%r" % (exc_msg(e), text[:400])))
            return
        if ref != lib:
            k = 0
            while k < min(len(ref), len(lib)) and ref[k] == lib[k]:
                k += 1
            failures.append(Failure(tag("canonical-denotes-different-events"), "event %d: reference %r, library %r\ntext=%r" % (
                k, ref[k:k + 1], lib[k:k + 1], text[:400])))
        if input_events is not None:
            diff = ge.events_equivalent(input_events, list(yaml.parse(out, Loader=yaml.Loader)))
            if diff is not None:
                failures.append(Failure(tag("canonical-differs-from-input:%s" % diff[0]), "%s\ntext=%r" % (diff[1], text[:400])))


def option_classes(opts, strs, ndocs):
    cl = set()
    nondefault = [k for k, v in opts.items() if v is not None and k != "sort_keys"]
    if len(nondefault) >= 2:
        cl.add("opts>=2")
    for k in nondefault:
        cl.add("opt:%s" % k)
    if any(any(ord(c) > 0x7e or (ord(c) < 0x20 and c not in "\n") for c in s) for s in strs):
        cl.add("data:non-ascii-or-control")
    if ndocs >= 2:
        cl.add("docs>=2")
    i = opts.get("indent")
    if i is not None and not (2 <= i <= 9):
        cl.add("indent:out-of-range")
    if opts.get("line_break") not in (None, "\r", "\n", "\r\n"):
        cl.add("line_break:invalid")
    return cl


# ------------------------------------------------------------------------------------------------

def eval_values(case):
    import yaml
    bps, opts, via_stream = case
    docs = [gv.build(bp)[0] for bp in bps]
    strs = [s for d in docs for s in strings_in(d)]
    cl = option_classes(opts, strs, len(docs))
    cl.add("level:values")
    failures = []
    evals = 0
    for dname, D in dumpers(True):
        evals += 1
        if len(strs) % 3 == 0:
            # an earlier dump of the same kind that failed half-way (the second document cannot be represented) must leave
            # nothing behind for this one
            cl.add("after-a-failed-dump")
            try:
                yaml.dump_all([{"earlier": "document"}, object()], Dumper=D, **opts)
            except yaml.YAMLError:
                pass
        try:
            if via_stream:
                stream = io.BytesIO() if opts.get("encoding") else io.StringIO()
                r = yaml.dump_all(docs, stream, Dumper=D, **opts)
                out = stream.getvalue()
                if r is not None:
                    failures.append(Failure("stream-given-but-value-returned:%s" % dname, repr(r)[:80]))
            else:
                out = yaml.dump_all(docs, Dumper=D, **opts)
        except RecursionError:
            raise
        except Exception as e:
            failures.append(Failure("dump_all-raised:%s:%s" % (dname, exc_key(e)), exc_msg(e)))
            continue
        check_output(out, opts, len(docs), via_stream, dname, failures)
    return Eval(failures, sorted(cl), nontrivial=bool(cl & {"opts>=2", "data:non-ascii-or-control", "docs>=2"}),
                ident=repr(case), evals=evals, sample={"documents": [repr(d)[:80] for d in docs], "options": repr(opts)})


def full_options():
    fields = {
        "default_style": st.sampled_from([None, '"', "'", "|", ">"]),
        "default_flow_style": st.sampled_from([True, False, None]),
        "canonical": st.sampled_from([None, True, True, False]),
        "indent": st.one_of(st.none(), st.integers(0, 12), st.sampled_from([-1, 1, 10, 100])),
        "width": st.sampled_from([None, 0, 1, 2, 5, 10, 20, 40, 80, 1000]),
        "allow_unicode": st.sampled_from([None, True, False]),
        "line_break": st.sampled_from([None, "\n", "\r", "\r\n", "\r", "\r\n", "x"]),
        "encoding": st.sampled_from([None, "utf-8", "utf-16-le", "utf-16-be"]),
        "explicit_start": st.sampled_from([None, True, True, False]),
        "explicit_end": st.sampled_from([None, True, True, False]),
        "version": st.sampled_from([None, (1, 1), (1, 2)]),
        "tags": gv.tag_maps(),
        "sort_keys": st.booleans(),
    }
    return st.fixed_dictionaries({}, optional=fields)


def value_cases():
    texts = st.one_of(gv.text(8), st.sampled_from(["caf\xe9", "日本", "a\r\nb", "a\rb", "x\x85y", "\u2028", "\x07", "\ufeff"]))
    return st.tuples(st.lists(gv.blueprints(max_leaves=10, texts=texts), min_size=0, max_size=3), full_options(), st.booleans())


# ------------------------------------------------------------------------------------------------

def eval_events(case):
    import yaml
    stream, opts = case
    events = ge.build_events(stream)
    cl = option_classes(opts, ge.scalar_texts(stream), len(stream))
    cl.add("level:events")
    failures = []
    evals = 0
    for dname, D in dumpers(False):
        evals += 1
        try:
            out = yaml.emit(ge.build_events(stream), Dumper=D, **opts)
        except RecursionError:
            raise
        except Exception as e:
            failures.append(Failure("emit-raised:%s:%s" % (dname, exc_key(e)), exc_msg(e)))
            continue
        check_output(out, opts, len(stream), False, dname, failures, input_events=events,
                     tags_per_doc=[d["tags"] for d in stream], version_per_doc=[d["version"] for d in stream],
                     explicit_start=[d["explicit_start"] for d in stream], explicit_end=[d["explicit_end"] for d in stream])
    return Eval(failures, sorted(cl), nontrivial=bool(cl & {"opts>=2", "data:non-ascii-or-control", "docs>=2"}),
                ident=repr(case), evals=evals, sample={"events": [ge.ev_repr(e) for e in events[:10]], "options": repr(opts)})


def event_cases():
    opts = st.fixed_dictionaries({}, optional={
        "canonical": st.sampled_from([None, True, True, False]),
        "indent": st.one_of(st.none(), st.integers(0, 12), st.sampled_from([-1, 1, 10, 100])),
        "width": st.sampled_from([None, 0, 1, 2, 5, 10, 20, 40, 80, 1000]),
        "allow_unicode": st.sampled_from([None, True, False]),
        "line_break": st.sampled_from([None, "\n", "\r", "\r\n", "\r", "\r\n", "x"]),
    })
    return st.tuples(ge.streams(max_docs=3, max_leaves=8), opts)


# ------------------------------------------------------------------------------------------------

def eval_nodes(case):
    import yaml
    from checks import c12
    bps, opts, via_stream = case
    docs = [c12.build_node(bp) for bp in bps]
    strs = [t for bp in bps for t, _ in c12.node_scalars(bp, [])]
    cl = option_classes(opts, strs, len(docs))
    cl.add("level:nodes")
    failures = []
    evals = 0
    for dname, D in dumpers(False):
        evals += 1
        try:
            if via_stream:
                stream = io.BytesIO() if opts.get("encoding") else io.StringIO()
                yaml.serialize_all(docs, stream, Dumper=D, **opts)
                out = stream.getvalue()
            else:
                out = yaml.serialize_all(docs, Dumper=D, **opts)
        except RecursionError:
            raise
        except Exception as e:
            failures.append(Failure("serialize_all-raised:%s:%s" % (dname, exc_key(e)), exc_msg(e)))
            continue
        check_output(out, opts, len(docs), via_stream, dname, failures)
    return Eval(failures, sorted(cl), nontrivial=bool(cl & {"opts>=2", "data:non-ascii-or-control", "docs>=2"}),
                ident=repr(case), evals=evals, sample={"nodes": [repr(b)[:100] for b in bps], "options": repr(opts)})


def node_cases():
    from checks import c12
    opts = st.fixed_dictionaries({}, optional={
        "canonical": st.sampled_from([None, True, True, False]),
        "indent": st.one_of(st.none(), st.integers(0, 12)),
        "width": st.sampled_from([None, 0, 5, 20, 80, 1000]),
        "allow_unicode": st.sampled_from([None, True, False]),
        "line_break": st.sampled_from([None, "\n", "\r", "\r\n", "x"]),
        "encoding": st.sampled_from([None, "utf-8", "utf-16-le", "utf-16-be"]),
        "explicit_start": st.sampled_from([None, True, False]),
        "explicit_end": st.sampled_from([None, True, False]),
        "version": st.sampled_from([None, (1, 1), (1, 2)]),
        "tags": gv.tag_maps(),
    })
    return st.tuples(st.lists(c12.node_blueprints(), min_size=0, max_size=3), opts, st.booleans())


def arms(tier):
    return [
        Arm("values", eval_values, value_cases, quick=9000, thorough=300000),
        Arm("events", eval_events, event_cases, quick=7000, thorough=250000),
        Arm("nodes", eval_nodes, node_cases, quick=5000, thorough=150000),
    ]


REQUIRED_CLASSES = ["after-a-failed-dump", "opt:canonical", "opt:encoding", "opt:line_break", "indent:out-of-range", "line_break:invalid",
                    "data:non-ascii-or-control", "docs>=2"]


def known_class(arm, case, key):
    from checks import c12
    # the LibYAML emitter drops an empty implicit first document (listed finding): the token stream then has one document less
    if key.startswith("document-count-in-tokens:c") or key.startswith("scan-rejects-output") and key.endswith(":c") is False:
        pass
    if key.split(":")[-1] == "c" or ":c:" in key:
        if arm == "events" and c12._first_root_is_empty_implicit_plain("events", case):
            return "libyaml-drops-empty-implicit-first-document"
        if arm == "nodes" and c12._first_root_is_empty_implicit_plain("nodes", case[:2]):
            return "libyaml-drops-empty-implicit-first-document"
        if arm == "events" and shorthand_with_flow_indicator(ge.build_events(case[0])):
            return "libyaml-emitter-writes-flow-indicator-in-shorthand-tag"
    return None


def pinned_known(key, rec):
    from checks import c05
    return c05.pinned_known(key, rec)
