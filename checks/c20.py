"""C20 - work grows linearly with the size of the input."""
import io

from hypothesis import strategies as st

from vlib.monitors import CallBudget
from vlib.runner import Arm, Eval, Failure
from vlib.util import exc_key, exc_msg

PROPERTY = "C20"
LEVEL = "exploration"
RULE = ("A catalogue of size-parameterised families (56 load families, given as str, as a text or byte stream or as UTF-16 bytes, a few through compose / serialize / full_load where safe_load cannot take the shape: long plain/single-/double-quoted/literal/folded scalars on one "
        "and on many lines, escapes, many block and flow entries, single-line flow collections, nested flow in block, many "
        "documents, many anchors and aliases, many aliases to one large node, doubling alias chains, long and many comments, "
        "blank runs, space runs, long explicit keys, simple keys up to the 1024 limit, tags, merges, ints/floats/timestamps, "
        "binary, empty values, deep-ish nesting at fixed depth; 25 dump families: lists, dicts, sets, long strings per style, "
        "multi-line strings, shared sub-objects, unicode, binary, control characters, quotes, floats) each instantiated with "
        "template parameters drawn by Hypothesis (filler word, line break, indent, key length, dump options) at sizes n, 2n, "
        "4n. Oracle: calls(x) = number of Python-level frame entries (sys.monitoring PY_START and PY_RESUME, i.e. what sys.setprofile reports as 'call') during safe_load / "
        "safe_dump - deterministic, no clock; linear-growth predicate calls(2n)/calls(n) <= 2.15, calls(4n)/calls(2n) <= 2.15 and "
        "(c(4n)-c(2n))/(c(2n)-c(n)) <= 2.3. Every (family, parameters) triple is non-trivial; distinct = hash of it.")
ASSUMPTIONS = [
    "work is counted in Python-level function calls, as the property states; work inside a single C call (str slicing, list.pop(0), regex matching) is not visible",
    "sizes are above the scanner's 1024-character simple-key window so that its constant does not distort the ratios",
]

LIMIT_RATIO = 2.15
LIMIT_SECOND = 2.3


def calls_of(fn):
    with CallBudget(None, count_resume=True) as b:
        fn()
    return b.calls


# ------------------------------------------------------------------------------------------------
# load families: (name, base n, builder(n, p) -> text)

def _w(p):
    return p["word"]


LOAD = [
    ("plain-long-line", 2000, lambda n, p: "k: " + (_w(p) + " ") * n + p["nl"]),
    ("plain-multi-line", 1000, lambda n, p: "k: " + (_w(p) + " " + _w(p) + p["nl"] + " " * p["indent"]) * n + "end" + p["nl"]),
    ("single-quoted-long", 2000, lambda n, p: "k: '" + (_w(p) + " ") * n + "'" + p["nl"]),
    ("single-quoted-multi-line", 1000, lambda n, p: "k: '" + (_w(p) + p["nl"] + " " * p["indent"]) * n + "'" + p["nl"]),
    ("single-quoted-many-quotes", 1500, lambda n, p: "k: '" + ("a''" * n) + "'" + p["nl"]),
    ("double-quoted-long", 2000, lambda n, p: "k: \"" + (_w(p) + " ") * n + "\"" + p["nl"]),
    # one long physical line of many words, then a break and a second line inside the quotes
    ("single-quoted-long-line-then-break", 1500, lambda n, p: "k: '" + (_w(p) + " ") * n + p["nl"] + " " * p["indent"] + "end'" + p["nl"]),
    ("double-quoted-long-line-then-break", 1500, lambda n, p: "k: \"" + (_w(p) + " ") * n + p["nl"] + " " * p["indent"] + "end\"" + p["nl"]),
    ("double-quoted-escapes", 1500, lambda n, p: "k: \"" + ("\\n\\x41\\u00e9\\\\" * n) + "\"" + p["nl"]),
    ("double-quoted-multi-line", 1000, lambda n, p: "k: \"" + (_w(p) + p["nl"] + " " * p["indent"]) * n + "\"" + p["nl"]),
    ("double-quoted-escaped-breaks", 1000, lambda n, p: "k: \"" + (_w(p) + "\\" + p["nl"] + " " * p["indent"]) * n + "\"" + p["nl"]),
    ("literal-many-lines", 1000, lambda n, p: "k: |" + p["nl"] + (" " * p["indent"] + _w(p) + p["nl"]) * n),
    ("literal-long-line", 2000, lambda n, p: "k: |" + p["nl"] + " " * p["indent"] + (_w(p) + " ") * n + p["nl"]),
    ("folded-many-lines", 1000, lambda n, p: "k: >" + p["nl"] + (" " * p["indent"] + _w(p) + p["nl"]) * n),
    ("folded-blank-lines", 1000, lambda n, p: "k: >" + p["nl"] + (" " * p["indent"] + _w(p) + p["nl"] + p["nl"]) * n),
    ("block-seq-entries", 1000, lambda n, p: ("- " + _w(p) + p["nl"]) * n),
    ("block-map-entries", 1000, lambda n, p: "".join("%s%d: %s%s" % (p["key"], i, _w(p), p["nl"]) for i in range(n))),
    ("nested-block-entries", 700, lambda n, p: "".join("- k%d:%s%s- %s%s" % (i, p["nl"], " " * (2 + p["indent"]), _w(p), p["nl"]) for i in range(n))),
    ("flow-seq-multi-line", 1000, lambda n, p: "[" + ("%s,%s " % (_w(p), p["nl"])) * n + "z]" + p["nl"]),
    ("flow-seq-single-line", 1500, lambda n, p: "[" + ("%s, " % _w(p)) * n + "z]" + p["nl"]),
    ("flow-map-single-line", 1200, lambda n, p: "{" + "".join("k%d: %s, " % (i, _w(p)) for i in range(n)) + "z: z}" + p["nl"]),
    ("flow-in-block", 700, lambda n, p: "".join("- [%s, {a: %s}]%s" % (_w(p), _w(p), p["nl"]) for i in range(n))),
    ("many-documents", 1000, lambda n, p: ("--- %s%s" % (_w(p), p["nl"])) * n),
    ("many-documents-explicit-end", 700, lambda n, p: ("--- %s%s...%s" % (_w(p), p["nl"], p["nl"])) * n),
    ("anchors-and-aliases", 700, lambda n, p: "".join("- &a%d %s%s- *a%d%s" % (i, _w(p), p["nl"], i, p["nl"]) for i in range(n))),
    ("many-aliases-to-one-node", 700, lambda n, p: "- &big [" + ", ".join([_w(p)] * n) + "]" + p["nl"] + ("- *big" + p["nl"]) * n),
    ("alias-chain-doubling", 12, lambda n, p: "- &n0 [x, x]" + p["nl"] + "".join("- &n%d [*n%d, *n%d]%s" % (i, i - 1, i - 1, p["nl"]) for i in range(1, n))),
    ("long-comment", 3000, lambda n, p: "k: v # " + "c" * n + p["nl"] + "j: w" + p["nl"]),
    ("many-comments", 1000, lambda n, p: ("# comment " + _w(p) + p["nl"]) * n + "k: v" + p["nl"]),
    ("blank-lines", 2000, lambda n, p: "a: 1" + p["nl"] * n + "b: 2" + p["nl"]),
    ("space-run", 3000, lambda n, p: "a:" + " " * n + "1" + p["nl"]),
    ("trailing-space-lines", 1000, lambda n, p: "a: 1" + p["nl"] + (" " * 20 + p["nl"]) * n + "b: 2" + p["nl"]),
    ("long-explicit-key", 2000, lambda n, p: "? " + (_w(p) + " ") * n + p["nl"] + ": v" + p["nl"]),
    ("many-simple-keys-near-limit", 60, lambda n, p: "".join("%s%d: v%s" % ("k" * 900, i, p["nl"]) for i in range(n))),
    ("tagged-entries", 700, lambda n, p: ("- !!str %s%s- !!int 12%s- !<tag:yaml.org,2002:str> %s%s" % (_w(p), p["nl"], p["nl"], _w(p), p["nl"])) * n),
    ("merge-keys", 500, lambda n, p: "base: &b {x: 1, y: 2}" + p["nl"] + "".join("m%d: {<<: *b, z: %d}%s" % (i, i, p["nl"]) for i in range(n))),
    ("numbers-and-timestamps", 700, lambda n, p: "".join("- 0x%x%s- %d.5e3%s- 2001-12-14 21:59:43.10 -5%s- 1:%02d:30%s" % (i, p["nl"], i, p["nl"], p["nl"], i % 60, p["nl"])
                                                          for i in range(n))),
    ("binary", 2000, lambda n, p: "b: !!binary |" + p["nl"] + ("  " + "QUJD" * 16 + p["nl"]) * (n // 16 + 1)),
    ("empty-values", 1000, lambda n, p: "".join("k%d:%s" % (i, p["nl"]) for i in range(n))),
    ("long-flow-collection-as-key", 1500, lambda n, p: "? !!python/tuple [" + ("%s, " % _w(p)) * n + "z]" + p["nl"] + ": v" + p["nl"], "full"),
    ("long-block-collection-as-key", 1000, lambda n, p: "?" + "".join("%s- %s" % (" " if i == 0 else p["nl"] + "  ", _w(p)) for i in range(n)) + p["nl"] + ": v" + p["nl"], "compose"),
    ("long-mapping-as-key", 700, lambda n, p: "? {" + "".join("k%d: %s, " % (i, _w(p)) for i in range(n)) + "z: z}" + p["nl"] + ": v" + p["nl"], "compose"),
    ("serialize-long-collection-as-key", 700, lambda n, p: "? [" + ("%s, " % _w(p)) * n + "z]" + p["nl"] + ": v" + p["nl"], "compose+serialize"),
    ("merge-distinct-inline-sources", 500, lambda n, p: "".join("m%d: {<<: {x: %d}, z: 1}%s" % (i, i, p["nl"]) for i in range(n))),
    ("merge-distinct-anchored-sources", 400, lambda n, p: "".join("- &a%d {x: %d}%s- {<<: *a%d, y: 2}%s" % (i, i, p["nl"], i, p["nl"]) for i in range(n))),
    ("merge-one-long-list", 500, lambda n, p: "".join("d%d: &a%d {x%d: 1}%s" % (i, i, i, p["nl"]) for i in range(n)) + "m: {<<: [" + ", ".join("*a%d" % i for i in range(n)) + "]}" + p["nl"]),
    ("many-tag-directives-documents", 400, lambda n, p: ("%%TAG !e! tag:yaml.org,2002:%s--- !e!str %s%s...%s" % (p["nl"], _w(p), p["nl"], p["nl"])) * n),
    ("long-anchor-and-tag-names", 2000, lambda n, p: "- &" + "a" * n + " !!str v" + p["nl"] + "- *" + "a" * n + p["nl"] + "- !<tag:yaml.org,2002:str> " + "t" * n + p["nl"]),
    ("literal-leading-blank-wide-line", 2000, lambda n, p: "k: |" + p["nl"] + " " * n + p["nl"] + " " * n + "x" + p["nl"]),
    ("folded-leading-blank-wide-line", 2000, lambda n, p: "k: >" + p["nl"] + " " * n + p["nl"] + " " * n + _w(p) + p["nl"]),
    ("literal-wide-indentation", 1500, lambda n, p: "k: |" + p["nl"] + (" " * n + _w(p) + p["nl"]) * 3),
    ("block-value-deep-indent", 2000, lambda n, p: "k:" + p["nl"] + " " * n + _w(p) + p["nl"]),
    ("spaces-before-comment", 3000, lambda n, p: "k: v" + " " * n + "# c" + p["nl"] + "j: w" + p["nl"]),
    ("flow-seq-wide-gaps", 300, lambda n, p: "[" + ("%s," % _w(p) + " " * 40) * n + "z]" + p["nl"]),
    ("literal-trailing-spaces-lines", 700, lambda n, p: "k: |" + p["nl"] + ("  x" + " " * 30 + p["nl"]) * n),
    # constructors that build their node in one step and deeply (an application constructor calling construct_mapping(deep=True);
    # python/object/apply and python/object/new under the unsafe loader), with aliases to collections constructed earlier
    ("deep-application-constructor-with-aliases", 500, lambda n, p: "".join("- &a%d [%s]%s- !item {ref: *a%d, n: %d}%s" % (i, _w(p), p["nl"], i, i, p["nl"]) for i in range(n)), "deep-constructor"),
    ("deep-application-constructor-one-shared-alias", 500, lambda n, p: "- &big [" + ", ".join([_w(p)] * 20) + "]" + p["nl"] + "".join("- !item {ref: *big, n: %d}%s" % (i, p["nl"]) for i in range(n)), "deep-constructor"),
    ("unsafe-object-apply-with-aliases", 400, lambda n, p: "".join("- &a%d [%s]%s- !!python/object/apply:builtins.list [*a%d]%s- !!python/object/new:canary_objs.Point [*a%d, %d]%s" % (
        i, _w(p), p["nl"], i, p["nl"], i, i, p["nl"]) for i in range(n)), "unsafe"),
    ("sets-and-omaps", 500, lambda n, p: "s: !!set {" + ", ".join("e%d" % i for i in range(n)) + "}" + p["nl"] + "o: !!omap [" + ", ".join("k%d: v" % i for i in range(n)) + "]" + p["nl"]),
]


# dump families: (name, base n, builder(n, p) -> value)

def _shared(n, p):
    s = [p["word"], 1, 2.5]
    return [s] * n


DUMP = [
    ("list-of-strings", 1000, lambda n, p: [p["word"]] * n),
    ("list-of-ints", 1000, lambda n, p: list(range(n))),
    ("dict-of-strings", 1000, lambda n, p: {"%s%d" % (p["key"], i): p["word"] for i in range(n)}),
    ("set-of-ints", 1000, lambda n, p: set(range(n))),
    ("nested-lists", 500, lambda n, p: [[i, [p["word"]]] for i in range(n)]),
    ("long-string-one-line", 2000, lambda n, p: (p["word"] + " ") * n),
    ("long-string-no-spaces", 4000, lambda n, p: "x" * n),
    ("multi-line-string", 1000, lambda n, p: (p["word"] + "\n") * n),
    ("multi-line-indented", 1000, lambda n, p: ("  " + p["word"] + " " + p["word"] + "\n") * n),
    ("shared-sub-objects", 700, _shared),
    ("unicode-string", 2000, lambda n, p: "\xe9日\U0001F600 " * n),
    ("binary-value", 4000, lambda n, p: b"\x00\xffabc" * n),
    ("control-characters", 1500, lambda n, p: "a\x07b\x1b" * n),
    ("quotes-and-backslashes", 1500, lambda n, p: "it's \"q\" \\ " * n),
    ("floats", 1000, lambda n, p: [i * 1.5 for i in range(n)]),
    ("long-keys", 300, lambda n, p: {("k%d " % i) * 40: i for i in range(n)}),
    ("breaks-mixed", 1000, lambda n, p: ("a\r\nb\x85c d\n") * n),
    ("list-of-dicts", 500, lambda n, p: [{"a": i, "b": p["word"]} for i in range(n)]),
    ("mixed-unorderable-keys-descending", 700, lambda n, p: dict([(i, p["word"]) for i in range(n, 0, -1)] + [("s", 1), (None, 2)])),
    ("mixed-unorderable-set", 700, lambda n, p: set(list(range(n, 0, -1)) + ["s", None])),
    ("long-tuple-as-first-key", 1000, lambda n, p: {tuple(range(n)): "v", "z": 1}),
    ("many-tuple-keys", 500, lambda n, p: {(i, p["word"]): i for i in range(n)}),
    ("deep-first-keys", 300, lambda n, p: {((tuple(range(n)), 1), 2): "v"}),
    ("many-anchored-shared-lists", 400, lambda n, p: [x for i in range(n) for x in ([[i]] * 2)]),
    # text that is written verbatim (allow_unicode) in each quoted / block style: wide characters, no space to fold at
    ("cjk-no-spaces-double-quoted-verbatim", 1500, lambda n, p: "\u65e5\u672c\u8a9e" * n, {"allow_unicode": True, "default_style": '"'}),
    ("cjk-no-spaces-single-quoted-verbatim", 1500, lambda n, p: "\u65e5\u672c\u8a9e" * n, {"allow_unicode": True, "default_style": "'"}),
    ("cjk-no-spaces-plain-verbatim", 1500, lambda n, p: "\u65e5\u672c\u8a9e" * n, {"allow_unicode": True}),
    ("cjk-no-spaces-folded-verbatim", 1500, lambda n, p: "\u65e5\u672c\u8a9e" * n, {"allow_unicode": True, "default_style": ">"}),
    ("cjk-words-canonical-verbatim", 1000, lambda n, p: "\u65e5\u672c \u8a9e\u3067 " * n, {"allow_unicode": True, "canonical": True, "width": 30}),
    ("cjk-escaped-double-quoted", 1000, lambda n, p: "\u65e5\u672c\u8a9e" * n, {"default_style": '"', "width": 40}),
    ("long-ascii-no-spaces-double-quoted-narrow", 3000, lambda n, p: "x" * n, {"default_style": '"', "width": 10}),
    ("dates-and-bytes", 700, lambda n, p: [__import__("datetime").date(2001, 1, 1 + i % 28) for i in range(n)] + [b"x" * 10] * n),
]


_loaders = {}


def _deep_loader():
    import yaml
    if "deep" not in _loaders:
        L = type("DeepItemLoader", (yaml.SafeLoader,), {})
        L.add_constructor("!item", lambda loader, node: tuple(sorted(loader.construct_mapping(node, deep=True).items(), key=repr)))
        _loaders["deep"] = L
    return _loaders["deep"]


def _canaries():
    import os
    import sys
    d = os.path.join(os.path.dirname(os.path.dirname(os.path.abspath(__file__))), "canaries")
    if d not in sys.path:
        sys.path.append(d)
    import canary_objs  # noqa: F401


def eval_family(case):
    import yaml
    kind, idx, p, scale = case
    fams = LOAD if kind == "load" else DUMP
    fam = fams[idx % len(fams)]
    name, base, build = fam[:3]
    api = fam[3] if len(fam) > 3 else "safe"
    n = max(4, int(base * scale))
    cl = {"%s:%s" % (kind, name)}
    failures = []
    counts = []
    opts = p.get("opts", {})
    if kind == "dump" and len(fam) > 3:
        opts = dict(opts, **fam[3])        # options that belong to the family
    form = p.get("form", "str") if kind == "load" else "value"
    cl.add("%s:form:%s" % (kind, form) if kind == "load" else "dump:to-%s" % ("stream" if p.get("to_stream") else "string"))
    for k in (1, 2, 4):
        x = build(n * k, p)
        if form == "text-stream":
            x = io.StringIO(x)
        elif form == "byte-stream":
            x = io.BytesIO(x.encode("utf-8"))
        elif form == "bytes-utf-16":
            x = x.encode("utf-16")
        elif kind == "dump" and p.get("to_stream"):
            opts = dict(opts, stream=io.StringIO())
        try:
            if kind == "load" and api == "compose":
                c = calls_of(lambda: list(yaml.compose_all(x, Loader=yaml.SafeLoader)))
            elif kind == "load" and api == "compose+serialize":
                c = calls_of(lambda: yaml.serialize_all(list(yaml.compose_all(x, Loader=yaml.SafeLoader)), Dumper=yaml.SafeDumper))
            elif kind == "load" and api == "deep-constructor":
                c = calls_of(lambda: list(yaml.load_all(x, Loader=_deep_loader())))
            elif kind == "load" and api == "unsafe":
                _canaries()
                c = calls_of(lambda: list(yaml.load_all(x, Loader=yaml.UnsafeLoader)))
            elif kind == "load" and api == "full":
                c = calls_of(lambda: list(yaml.load_all(x, Loader=yaml.FullLoader)))
            elif kind == "load":
                c = calls_of(lambda: list(yaml.load_all(x, Loader=yaml.SafeLoader)))
            else:
                c = calls_of(lambda: yaml.dump(x, Dumper=yaml.SafeDumper, **opts))
        except RecursionError:
            raise
        except Exception as e:
            raise AssertionError("family %s does not %s: %r" % (name, kind, e))
        counts.append(c)
    c1, c2, c4 = counts
    r1 = c2 / max(1, c1)
    r2 = c4 / max(1, c2)
    second = (c4 - c2) / max(1, (c2 - c1))
    if r1 > LIMIT_RATIO or r2 > LIMIT_RATIO or second > LIMIT_SECOND:
        failures.append(Failure("superlinear:%s:%s" % (kind, name),
                                "n=%d: calls %d, %d, %d; ratios %.2f, %.2f; second-difference ratio %.2f\nparameters=%r" % (n, c1, c2, c4, r1, r2, second, p)))
    return Eval(failures, sorted(cl), nontrivial=True, ident=repr((kind, name, sorted(p.items(), key=repr), n)), evals=3,
                sample={"family": name, "kind": kind, "n": n, "calls": counts, "ratios": [round(r1, 3), round(r2, 3), round(second, 3)],
                        "parameters": repr(p)})


def params(dump=False):
    fields = {
        "word": st.sampled_from(["a", "word", "lorem", "x1y2", "\xe9t\xe9", "k:v", "a#b", "0", "1.5", "true"]),
        "nl": st.sampled_from(["\n", "\n", "\r\n", "\r"]),
        "indent": st.sampled_from([1, 2, 4, 8]),
        "key": st.sampled_from(["k", "key", "a-long-key-name-", "k" * 100]),
    }
    if dump:
        fields["to_stream"] = st.booleans()
    else:
        fields["form"] = st.sampled_from(["str", "str", "text-stream", "byte-stream", "bytes-utf-16"])
    if dump:
        fields["opts"] = st.sampled_from([{}, {}, {"default_flow_style": True}, {"default_flow_style": False}, {"default_style": '"'},
                                          {"default_style": "'"}, {"default_style": "|"}, {"default_style": ">"}, {"width": 20},
                                          {"allow_unicode": True}, {"canonical": True}, {"indent": 7, "width": 1000}, {"sort_keys": False}])
    return st.fixed_dictionaries(fields)


def enum_default(shard, nshards, tier):
    """Every family once with default parameters (so that no family is missed by the random draw)."""
    p = {"word": "word", "nl": "\n", "indent": 2, "key": "k", "opts": {}}
    n = 0
    for kind, fams in (("load", LOAD), ("dump", DUMP)):
        for i in range(len(fams)):
            for scale in ((1.0,) if tier == "quick" else (1.0, 2.0, 4.0)):
                if n % nshards == shard:
                    yield (kind, i, p, scale)
                n += 1


def load_cases():
    return st.tuples(st.just("load"), st.integers(0, len(LOAD) - 1), params(), st.sampled_from([0.5, 1.0]))


def dump_cases():
    return st.tuples(st.just("dump"), st.integers(0, len(DUMP) - 1), params(dump=True), st.sampled_from([0.5, 1.0]))


def arms(tier):
    return [Arm("default", eval_family, enum=enum_default, exhaustive=False),
            Arm("load", eval_family, load_cases, quick=360, thorough=6000),
            Arm("dump", eval_family, dump_cases, quick=160, thorough=4000)]


REQUIRED_CLASSES = ["load:%s" % f[0] for f in LOAD] + ["dump:%s" % f[0] for f in DUMP] + ["load:form:text-stream", "load:form:byte-stream", "load:form:bytes-utf-16", "dump:to-stream"]
