"""C18 - streams are consumed incrementally and documents delivered as they complete."""
import codecs
import gc
import math
import weakref

from hypothesis import strategies as st

from vlib.runner import Arm, Eval, Failure
from vlib.util import exc_key, exc_msg, have_c

PROPERTY = "C18"
LEVEL = "exploration"
RULE = ("Hypothesis-generated streams of 1-10 documents with sizes from {empty, small, about one refill block, 1-5 blocks, one token "
        "longer than a block (quoted scalar, literal block, long plain line)}, with and without explicit '...' ends, the k-th "
        "document optionally malformed (scanner error at its first character, unbalanced flow collection, bad indentation, "
        "undefined alias), followed by a tail of 0-20 blocks of further documents or comments; delivered through an "
        "instrumented text or byte stream whose read() returns pieces of drawn sizes; x scan, parse, compose_all, load_all x both "
        "back-ends. Oracle (monitor): when the k-th document is yielded, the stream offset consumed so far is at most two "
        "refill blocks (4096 characters/bytes for the pure-Python reader, 16384 for LibYAML) beyond the end of that document, "
        "it is identical when the tail is made four times longer, and the number of read() calls is at most ceil(end/"
        "smallest piece)+3; documents before a malformed one are yielded before its error, which is the error the document "
        "gives alone; close() on the generator disposes the loader and no read() happens afterwards. Non-trivial = a stream of "
        ">= 3 blocks with >= 2 documents; distinct = hash of case.")
ASSUMPTIONS = [
    "the refill block is taken as the constant 4096 (pure-Python reader) / 16384 (LibYAML input buffer), the sizes the unchanged library requests",
    "for scan/parse the 'delivery' of document k is the yield of its last token / its DOCUMENT-END event",
]

BLOCK = {"py": 4096, "c": 16384}


class SpyStream:
    def __init__(self, data, schedule):
        self.data = data
        self.pos = 0
        self.schedule = list(schedule)
        self.i = 0
        self.reads = 0
        self.requests = set()
        self.closed_reads = 0
        self.frozen = False
        self.name = "<spy>"

    def read(self, size=-1):
        self.reads += 1
        if self.frozen:
            self.closed_reads += 1
        if size is None or size < 0:
            size = len(self.data)
        self.requests.add(size)
        if self.schedule:
            k = self.schedule[min(self.i, len(self.schedule) - 1)]
            self.i += 1
            size = min(size, max(1, k))
        out = self.data[self.pos:self.pos + size]
        self.pos += len(out)
        return out


def doc_text(spec):
    """spec = (kind, n, end) -> body text of one document (without the leading '---')."""
    kind, n, end = spec
    if kind == "empty":
        body = "\n"
    elif kind == "small":
        body = ["k: v\n", "- a\n- b\n", "plain\n", "{a: [1, 2]}\n", "\"q\"\n"][n % 5]
    elif kind == "entries":      # n lines of a block mapping
        body = "".join("key%05d: value %d\n" % (i, i) for i in range(n))
    elif kind == "items":
        body = "".join("- item number %d\n" % i for i in range(n))
    elif kind == "long-quoted":
        body = "\"" + ("x" * 79 + " ") * (n // 80 + 1) + "\"\n"
    elif kind == "long-plain":
        body = "k: " + "y" * n + "\n"
    elif kind == "literal":
        body = "|\n" + "".join("  line %d of the block\n" % i for i in range(n // 20 + 1))
    elif kind == "nonascii":
        body = "".join("- caf\xe9 \u65e5\u672c %d\n" % i for i in range(n))
    elif kind == "cjk":        # almost every character takes three bytes in UTF-8 (a text stream counts characters, LibYAML bytes)
        body = "".join("- \u65e5\u672c\u8a9e\u306e\u30c6\u30ad\u30b9\u30c8\u884c\u3001\u756a\u53f7 %d\n" % i for i in range(n))
    else:
        raise AssertionError(kind)
    if kind in ("long-quoted", "literal", "small", "empty") or True:
        pass
    return body, ("...\n" if end else "")


BAD = {"scanner-at-start": "@oops\n", "unbalanced-flow": "[a, b\n", "bad-indent": "a:\n  b: 1\n c: 2\n", "undefined-alias": "*nowhere\n",
       "tab-indent": "a:\n\t- b\n", "bad-escape": "\"\\q\"\n", "bare-scanner-error": "@oops\n",
       "bare-huge-quoted": "\"" + "x" * 240000 + "\"\n", "bare-small": "k: v\n"}


def build_stream(docs, bad, tail_kind, tail_blocks, first_implicit, nl="\n"):
    """-> (text, [end offset of document i], index of the malformed document or None)"""
    parts = []
    ends = []
    pos = 0
    bad_index = None
    prev_explicit_end = False
    bare_count = [0]
    for i, spec in enumerate(docs):
        body, end = doc_text(spec)
        if bad is not None and bad[0] % len(docs) == i:
            body = BAD[bad[1]]
            end = ""
            bad_index = i
        head = "" if (i == 0 and first_implicit and not body.startswith(("|", "\n")) and bad_index != 0) else "---\n"
        # content right after an explicit '...' without a '---' (not accepted by the parser): the documents before it must
        # still be delivered first, after a bounded amount of reading
        if bad_index == i and i > 0 and bad[1].startswith("bare-"):
            head = ""
            if not parts[-1].endswith("...\n"):
                parts[-1] += "...\n"
                pos += 4
                ends[-1] = pos
            bare_count[0] += 1
        t = head + body + end
        parts.append(t)
        pos += len(t)
        ends.append(pos)
    text = "".join(parts)
    unit = 4096
    if tail_kind == "docs":
        one = "--- tail document with some padding text to make it longer ........\n"
    else:
        one = "# tail comment line, padding padding padding padding padding ........\n"
    tail = one * (tail_blocks * unit // len(one))
    if nl != "\n":
        # the same stream written with another line break (every break of it): offsets move only for the two-character break
        if len(nl) == 2:
            ends = [e + text[:e].count("\n") for e in ends]
        text = text.replace("\n", nl)
        tail = tail.replace("\n", nl)
    return text, ends, bad_index, tail, bare_count[0]


NLS = ["\n", "\n", "\n", "\r\n", "\r", "\x85", "\u2028", "\u2029"]


def level_iter(yaml, level, L, stream):
    if level == "scan":
        return yaml.scan(stream, Loader=L)
    if level == "parse":
        return yaml.parse(stream, Loader=L)
    if level == "compose":
        return yaml.compose_all(stream, Loader=L)
    return yaml.load_all(stream, Loader=L)


def deliveries(yaml, level, L, data, schedule, ndocs):
    """Run one leg; return (list of (consumed, reads) at the delivery of each document, error or None, spy)."""
    spy = SpyStream(data, schedule)
    out = []
    err = None
    gen = level_iter(yaml, level, L, spy)
    try:
        if level in ("compose", "load"):
            for x in gen:
                out.append((spy.pos, spy.reads))
                if len(out) >= ndocs:
                    break
        else:
            T = yaml.tokens
            E = yaml.events
            last = None
            in_doc = False
            for x in gen:
                name = type(x).__name__
                if level == "parse":
                    if name == "DocumentEndEvent":
                        out.append((spy.pos, spy.reads))
                        if len(out) >= ndocs:
                            break
                else:
                    # delivery of document k = the yield of its DOCUMENT-END token, or of its last token when the end is implicit
                    if name == "DocumentEndToken":
                        out.append((spy.pos, spy.reads))
                        in_doc = False
                    elif name in ("DocumentStartToken", "StreamEndToken"):
                        if in_doc:
                            out.append(last)
                        in_doc = name == "DocumentStartToken"
                    elif name not in ("StreamStartToken", "DirectiveToken"):
                        in_doc = True
                    last = (spy.pos, spy.reads)
                    if len(out) >= ndocs:
                        break
    except yaml.YAMLError as e:
        err = e
    finally:
        close = getattr(gen, "close", None)
        spy.frozen = True
        if close:
            close()
    return out, err, spy


def eval_case(case):
    import yaml
    docs, bad, tail_kind, tail_blocks, first_implicit, schedule, as_bytes = case
    # the line break of the whole stream is a pure function of the case
    nl = NLS[(len(docs) + tail_blocks + sum(schedule) + sum(sp[1] for sp in docs)) % len(NLS)]
    text, ends, bad_index, tail, nbare = build_stream(docs, bad, tail_kind, tail_blocks, first_implicit, nl)
    ndocs = len(docs)
    cl = set()
    cl.add("break:%s" % {"\n": "LF", "\r\n": "CRLF", "\r": "CR", "\x85": "NEL", "\u2028": "LS", "\u2029": "PS"}[nl])
    total_blocks = (len(text) + len(tail)) / 4096.0
    if total_blocks >= 3 and ndocs >= 2:
        cl.add("stream>=3-blocks-and-docs>=2")
    for spec in docs:
        cl.add("doc:%s" % spec[0])
        if spec[2]:
            cl.add("doc:explicit-end")
    if bad_index is not None:
        cl.add("malformed:%s" % bad[1])
        if bad_index > 0:
            cl.add("malformed-after-good-documents")
    encoding = "utf-8" if as_bytes is True else (as_bytes or None)
    cl.add("bytes-stream" if encoding else "text-stream")
    if encoding and encoding != "utf-8":
        cl.add("bytes-stream:utf-16")
    if nbare:
        cl.add("bare-document-after-explicit-end")
    if any(k < 4096 for k in schedule):
        cl.add("short-reads")

    def enc(s):
        if not encoding:
            return s
        if encoding == "utf-8":
            return s.encode("utf-8")
        return (codecs.BOM_UTF16_LE if encoding == "utf-16-le" else codecs.BOM_UTF16_BE) + s.encode(encoding)
    data1 = enc(text + tail)
    data4 = enc(text + tail * 4)
    ends_u = [len(enc(text[:e])) for e in ends]
    smallest = min(schedule) if schedule else 4096
    failures = []
    evals = 0
    legs = [("py", yaml.Loader, yaml.SafeLoader)] + ([("c", yaml.CLoader, yaml.CSafeLoader)] if have_c() else [])
    ngood = ndocs if bad_index is None else bad_index
    for bname, L, SL in legs:
        block = BLOCK[bname]
        for level in ("scan", "parse", "compose", "load"):
            LL = SL if level == "load" else L
            evals += 2
            d1, e1, spy1 = deliveries(yaml, level, LL, data1, schedule, ngood if bad_index is None else ndocs)
            d4, e4, spy4 = deliveries(yaml, level, LL, data4, schedule, ngood if bad_index is None else ndocs)
            tagk = "%s:%s" % (bname, level)
            if spy1.closed_reads or spy4.closed_reads:
                failures.append(Failure("read-after-close:%s" % tagk, "%d read() calls after the generator was closed" % (spy1.closed_reads + spy4.closed_reads)))
            if bad_index is None and e1 is not None:
                failures.append(Failure("valid-stream-rejected:%s:%s" % (tagk, exc_key(e1)), exc_msg(e1)))
                continue
            if len(d1) < ngood:
                failures.append(Failure("documents-before-malformed-one-not-delivered:%s" % tagk,
                                        "%d documents precede the malformed one, %d were delivered before %s\ntext=%r" % (
                                            ngood, len(d1), type(e1).__name__ if e1 else "the end", text[-200:])))
                continue
            if bad_index is not None:
                # the error is the one the document gives alone at this level (an undefined alias is no error for scan/parse)
                evals += 1
                alone = "---\n" + BAD[bad[1]]
                try:
                    for _ in level_iter(yaml, level, LL, alone):
                        pass
                    ealone = None
                except yaml.YAMLError as e:
                    ealone = e
                if ealone is None:
                    pass
                elif e1 is None:
                    failures.append(Failure("malformed-document-accepted:%s:%s" % (tagk, bad[1]), "text=%r" % text[-200:]))
                    continue
                elif type(ealone) is not type(e1) or getattr(ealone, "context", None) != getattr(e1, "context", None):
                    failures.append(Failure("error-differs-from-document-alone:%s:%s" % (tagk, bad[1]),
                                            "in stream: %s\nalone: %s" % (exc_msg(e1), exc_msg(ealone) if ealone else None)))
            # a comment-only tail belongs to the last document (its end is only known at the end of the stream)
            ncheck = ngood - 1 if (tail_kind == "comments" and tail and bad_index is None) else ngood
            for k in range(ncheck):
                over = d1[k][0] - ends_u[k]
                if over > 2 * block:
                    failures.append(Failure("reads-too-far-ahead:%s" % tagk,
                                            "document %d ends at offset %d; %d had been consumed when it was delivered (%d beyond, limit %d)\ndocs=%r" % (
                                                k, ends_u[k], d1[k][0], over, 2 * block, docs)))
                    break
                if d1[k][0] != min(d4[k][0], len(data1)):       # equal unless the shorter stream simply ended
                    failures.append(Failure("consumption-depends-on-what-follows:%s" % tagk,
                                            "document %d delivered after %d units with the tail, %d with the tail x4\ndocs=%r" % (k, d1[k][0], d4[k][0], docs)))
                    break
                limit = math.ceil((ends_u[k] + 2 * block) / max(1, min(smallest, block))) + 3
                if d1[k][1] > limit:
                    failures.append(Failure("too-many-read-calls:%s" % tagk, "document %d: %d read() calls, limit %d" % (k, d1[k][1], limit)))
                    break
        # abandoning: dispose() is called
        evals += 1
        disposed = []
        Spy = type("SpyLoader", (SL,), {"dispose": lambda self, _d=disposed, _SL=SL: (_d.append(1), _SL.dispose(self))[1]})
        spy = SpyStream(data1, schedule)
        gen = yaml.load_all(spy, Loader=Spy)
        try:
            next(gen)
        except (StopIteration, yaml.YAMLError):
            pass
        gen.close()
        reads = spy.reads
        if not disposed:
            failures.append(Failure("abandoned-iteration-not-disposed:%s" % bname, "close() did not call dispose()"))
        del gen
        if spy.reads != reads:
            failures.append(Failure("read-after-close:%s:load" % bname, "read() after close()"))
        # abandoning releases the loader: dispose() exists to break the loader's reference cycles, so after close() the
        # loader object is freed at once (checked with the cyclic collector switched off), after 0, 1 or several items
        for level in ("scan", "parse", "compose", "load"):
            for k in sorted({0, 1, max(1, ngood // 2)}):
                evals += 1
                refs = []
                base = SL if level == "load" else L

                def _init(self, stream, _r=refs, _B=base):
                    _B.__init__(self, stream)
                    _r.append(weakref.ref(self))
                RefL = type("RefLoader", (base,), {"__init__": _init})
                was = gc.isenabled()
                gc.disable()
                try:
                    gen3 = level_iter(yaml, level, RefL, SpyStream(data1, schedule))
                    try:
                        for _ in range(k):
                            next(gen3)
                    except (StopIteration, yaml.YAMLError):
                        pass
                    close3 = getattr(gen3, "close", None)
                    if close3:
                        close3()
                    del gen3
                    alive = [r for r in refs if r() is not None]
                finally:
                    if was:
                        gc.enable()
                if alive:
                    failures.append(Failure("abandoned-iteration-keeps-loader-alive:%s:%s" % (bname, level),
                                            "after %d items and close() the loader object is still alive (reference cycle not broken by dispose())\nencoding=%r" % (k, encoding)))
                    break
        # abandoning the iteration before asking for the first item: nothing may be held or read on behalf of it
        for level in ("scan", "parse", "compose", "load"):
            evals += 1
            disposed2 = []
            SpyL = type("SpyLoader", (SL if level == "load" else L,), {
                "dispose": lambda self, _d=disposed2, _B=(SL if level == "load" else L): (_d.append(1), _B.dispose(self))[1]})
            spy2 = SpyStream(data1, schedule)
            gen2 = level_iter(yaml, level, SpyL, spy2)
            close2 = getattr(gen2, "close", None)
            if close2:
                close2()
            del gen2
            if spy2.reads and not disposed2:
                failures.append(Failure("abandoned-before-first-item-not-disposed:%s:%s" % (bname, level),
                                        "%d read() calls were made when the iterator was created, and closing it never disposed the loader" % spy2.reads))
    return Eval(failures, sorted(cl), nontrivial="stream>=3-blocks-and-docs>=2" in cl, ident=repr(case), evals=evals,
                sample={"docs": repr(docs), "malformed": repr(bad), "tail": (tail_kind, tail_blocks), "schedule": repr(schedule)[:80]})


def cases():
    spec = st.one_of(
        st.tuples(st.just("empty"), st.just(0), st.booleans()),
        st.tuples(st.just("small"), st.integers(0, 4), st.booleans()),
        st.tuples(st.just("small"), st.integers(0, 4), st.booleans()),
        st.tuples(st.just("entries"), st.sampled_from([1, 50, 200, 215, 230, 600, 1100]), st.booleans()),
        st.tuples(st.just("items"), st.sampled_from([1, 100, 180, 200, 900]), st.booleans()),
        st.tuples(st.just("long-quoted"), st.sampled_from([100, 4000, 5000, 9000, 20000, 50000]), st.booleans()),
        st.tuples(st.just("long-plain"), st.sampled_from([100, 900, 4200, 9000, 17000]), st.booleans()),
        st.tuples(st.just("literal"), st.sampled_from([100, 4000, 12000]), st.booleans()),
        st.tuples(st.just("nonascii"), st.sampled_from([5, 300, 700]), st.booleans()),
        st.tuples(st.just("cjk"), st.sampled_from([5, 400, 1500, 4000]), st.booleans()))
    bad = st.one_of(st.none(), st.none(), st.tuples(st.integers(0, 20), st.sampled_from(sorted(BAD))))
    schedule = st.one_of(st.just([4096]), st.just([4096]), st.just([65536]), st.lists(st.sampled_from([1, 7, 64, 1000, 4095, 4096, 4097, 16384, 20000]), min_size=1, max_size=8))
    return st.tuples(st.lists(spec, min_size=1, max_size=10), bad, st.sampled_from(["docs", "comments"]), st.sampled_from([0, 1, 3, 8, 20]),
                     st.booleans(), schedule, st.sampled_from([False, False, False, True, True, "utf-16-le", "utf-16-be"]))


def arms(tier):
    return [Arm("streams", eval_case, cases, quick=500, thorough=20000)]


REQUIRED_CLASSES = ["break:CR", "break:CRLF", "break:NEL", "break:LS", "break:PS", "stream>=3-blocks-and-docs>=2", "malformed-after-good-documents", "doc:explicit-end", "doc:long-quoted", "short-reads",
                    "bytes-stream", "bytes-stream:utf-16", "text-stream", "malformed:scanner-at-start", "bare-document-after-explicit-end"]
