"""C16 - dumping is deterministic and stable."""
import datetime
import os
import pickle
import random
import re
import struct
import subprocess
import sys

from hypothesis import strategies as st

from vlib import gen_values as gv
from vlib.compare import bisimilar
from vlib.runner import Arm, Eval, Failure, REPO, VERIF
from vlib.util import exc_key, exc_msg, have_c, objects_in

PROPERTY = "C16"
LEVEL = "exploration"
RULE = ("Hypothesis-generated value graphs (1-3 documents, sharing and recursion) whose dicts and sets draw their keys from one "
        "mutually comparable class per container (str; bytes; int/float/bool without NaN; date; naive datetime; aware "
        "datetime), x dump options x both dumpers. Metamorphic relations: (1) with sort_keys on, the text is identical "
        "after re-inserting every dict's items and every set's members in a drawn permutation, and identical to the text "
        "produced by helper interpreters started with PYTHONHASHSEED 1 and 4242 that rebuild the value from its blueprint; "
        "(2) with sort_keys off, reloaded dicts have the insertion order; (3) fixed point: dump(load(dump(x))) == dump(x) "
        "under the same options, loading with either back-end; (4) in every document the anchors are defined in the order "
        "id001, id002, ... (no carry-over between documents), and the text of a document dumped inside a stream equals its "
        "text dumped alone up to the document separators. Non-trivial = a dict/set with >= 3 keys under a non-identity "
        "permutation, or >= 2 anchors; distinct = hash of case.")
ASSUMPTIONS = [
    "sets under sort_keys=False have no defined order (not claimed by the property): cases with a multi-member set are compared "
    "across insertion orders / hash seeds / reload only under sort_keys=True",
    "keys of one container are mutually comparable by construction; NaN is not a key",
    "the permutation is a pure function of an integer drawn by Hypothesis",
]

SEEDS = ["1", "4242"]
_helpers = {}

NS = "tag:c16.example,2000:"
APP_TAGS = [NS + "app/point", NS + "app/", NS + "app", NS + "other", NS + "app/deep/er", "!c16local", "!c16/x"]
TAG_DIRECTIVES = [
    {"!e!": NS, "!app!": NS + "app/"},                      # nested prefixes: the handle chosen must not depend on set/dict order
    {"!app!": NS + "app/", "!e!": NS},
    {"!a!": NS + "app/", "!b!": NS, "!c!": NS + "a", "!d!": NS + "app/deep/"},
    {"!e!": NS},
    {"!": "!c16", "!!": NS},
    {"!x!": "!c16", "!y!": "!c16/", "!z!": "!"},
]


class Tagged:
    """An application value written as a scalar with an application tag (dumped by the private dumper subclasses below)."""
    def __init__(self, tag, text):
        self.tag, self.text = tag, text

    def __eq__(self, other):
        return type(other) is Tagged and (self.tag, self.text) == (other.tag, other.text)

    def __hash__(self):
        return hash((self.tag, self.text))

    def __repr__(self):
        return "Tagged(%r, %r)" % (self.tag, self.text)


_classes = {}


def get_dumper(yaml, dname):
    """Private subclass of the named shipped dumper that also knows how to write Tagged values."""
    D = _classes.get(dname)
    if D is None:
        D = _classes[dname] = type("C16" + dname, (getattr(yaml, dname),), {})
        D.add_representer(Tagged, lambda d, x: d.represent_scalar(x.tag, x.text))
    return D


def get_loader(yaml, L):
    LL = _classes.get(L)
    if LL is None:
        LL = _classes[L] = type("C16" + L.__name__, (L,), {})
        for prefix in (NS, "!c16"):
            LL.add_multi_constructor(prefix, lambda l, suffix, node, prefix=prefix: Tagged(prefix + suffix, l.construct_scalar(node)))
    return LL


def helper(seed):
    h = _helpers.get(seed)
    if h is None or h.poll() is not None:
        env = dict(os.environ, PYTHONHASHSEED=seed, VERIF_REPO=REPO, PYTHONDONTWRITEBYTECODE="1")
        h = subprocess.Popen([sys.executable, "-X", "utf8", os.path.join(VERIF, "vlib", "c16_helper.py")],
                             stdin=subprocess.PIPE, stdout=subprocess.PIPE, env=env)
        _helpers[seed] = h
    return h


def ask(seed, req):
    h = helper(seed)
    data = pickle.dumps(req, 4)
    h.stdin.write(struct.pack(">I", len(data)) + data)
    h.stdin.flush()
    head = h.stdout.read(4)
    if len(head) < 4:
        raise RuntimeError("C16 helper (PYTHONHASHSEED=%s) died" % seed)
    (n,) = struct.unpack(">I", head)
    return pickle.loads(h.stdout.read(n))


def permute(docs, seed):
    """Rebuild every dict and set with its items inserted in a permuted order; sharing and recursion are preserved."""
    rnd = random.Random(seed)
    memo = {}

    def go(x):
        if isinstance(x, (list, dict, set)):
            if id(x) in memo:
                return memo[id(x)]
            if isinstance(x, list):
                out = []
                memo[id(x)] = out
                out.extend(go(i) for i in x)
                return out
            if isinstance(x, dict):
                out = {}
                memo[id(x)] = out
                items = list(x.items())
                rnd.shuffle(items)
                for k, v in items:
                    out[k] = go(v)
                return out
            out = set()
            memo[id(x)] = out
            items = list(x)
            rnd.shuffle(items)
            for k in items:
                out.add(k)
            return out
        return x
    return [go(d) for d in docs]


def dumpers():
    out = ["SafeDumper"]
    if have_c():
        out.append("CSafeDumper")
    return out


def loaders():
    import yaml
    out = [("py", yaml.SafeLoader)]
    if have_c():
        out.append(("c", yaml.CSafeLoader))
    return out


_anchor = re.compile(r"&(id[0-9]+)")


def anchors_in_order(text_or_bytes, opts):
    """Per document: the anchors in definition order (from the library's own event stream)."""
    import yaml
    out = []
    cur = None
    for ev in yaml.parse(text_or_bytes, Loader=yaml.Loader):
        n = type(ev).__name__
        if n == "DocumentStartEvent":
            cur = []
            out.append(cur)
        elif n in ("ScalarEvent", "SequenceStartEvent", "MappingStartEvent") and ev.anchor is not None:
            cur.append(ev.anchor)
    return out


def eval_case(case):
    import yaml
    bps, opts, perm_seed = case
    docs = [gv.build(bp)[0] for bp in bps]
    sort_keys = opts.get("sort_keys", True)
    objs = [o for d in docs for o in objects_in(d)]
    multi_set = any(isinstance(o, set) and len(o) > 1 for o in objs)
    big = any(isinstance(o, (dict, set)) and len(o) >= 3 for o in objs)
    cl = set()
    cl.add("sort_keys:%s" % ("on" if sort_keys else "off"))
    if big:
        cl.add("container>=3-keys")
    if multi_set:
        cl.add("set>=2-members")
    if len(docs) > 1:
        cl.add("docs>1")
    for o in objs:
        if isinstance(o, (dict, set)) and len(o) >= 2:
            k = next(iter(o))
            cl.add("keys:%s" % ("number" if isinstance(k, (int, float)) else "aware-datetime" if isinstance(k, datetime.datetime)
                                and k.tzinfo else type(k).__name__))
    failures = []
    evals = 0
    perm_docs = permute(docs, perm_seed)
    ntagged = sum(1 for o in objs if type(o) is Tagged)
    if ntagged:
        cl.add("application-tagged-values")
    if opts.get("tags"):
        cl.add("opt:tags")
        pre = list(opts["tags"].values())
        if any(type(o) is Tagged and sum(1 for p_ in pre if o.tag.startswith(p_) and len(p_) < len(o.tag)) >= 2 for o in objs):
            cl.add("opt:tags:two-prefixes-match-one-tag")
    for dname in dumpers():
        D = get_dumper(yaml, dname)
        try:
            text = yaml.dump_all(docs, Dumper=D, **opts)
        except RecursionError:
            raise
        except Exception as e:
            failures.append(Failure("dump-raised:%s:%s" % (dname, exc_key(e)), exc_msg(e)))
            continue
        evals += 1
        order_claimed = sort_keys or not multi_set
        # (1) insertion order / hash seed independence
        if sort_keys:
            evals += 1
            t2 = yaml.dump_all(perm_docs, Dumper=D, **opts)
            if t2 != text:
                failures.append(Failure("depends-on-insertion-order:%s" % dname, "perm_seed=%d\n%r\n!=\n%r" % (perm_seed, text[:300], t2[:300])))
        if order_claimed:
            for seed in SEEDS:
                evals += 1
                kind, t3 = ask(seed, (bps, opts, dname, perm_seed if sort_keys else None))
                if kind != "ok":
                    failures.append(Failure("helper-dump-raised:%s" % dname, t3[:300]))
                elif t3 != text:
                    failures.append(Failure("depends-on-hash-seed-or-process:%s" % dname,
                                            "PYTHONHASHSEED=%s\n%r\n!=\n%r" % (seed, text[:300], t3[:300])))
        # (4) anchors
        try:
            per_doc = anchors_in_order(text, opts)
        except Exception as e:
            failures.append(Failure("own-output-does-not-parse:%s:%s" % (dname, exc_key(e)), exc_msg(e)))
            continue
        nanch = 0
        for i, names in enumerate(per_doc):
            nanch = max(nanch, len(names))
            want = ["id%03d" % (j + 1) for j in range(len(names))]
            if sorted(names) != want:
                failures.append(Failure("anchor-names:%s" % dname, "document %d defines %r, expected %r\ntext=%r" % (
                    i, names, want, (text if isinstance(text, str) else text.decode(opts.get("encoding") or "utf-8"))[:400])))
                break
        if nanch >= 2:
            cl.add("anchors>=2")
        if len(docs) > 1 and any(per_doc):
            cl.add("docs>1-with-anchors")
        # (2) insertion order on reload, (3) fixed point
        for lname, L in loaders():
            evals += 1
            try:
                back = list(yaml.load_all(text, Loader=get_loader(yaml, L)))
            except RecursionError:
                raise
            except Exception as e:
                failures.append(Failure("reload-raised:%s>%s:%s" % (dname, lname, exc_key(e)), exc_msg(e)))
                continue
            if not sort_keys:
                for a, b in zip(docs, back):
                    d = bisimilar(a, b, key_order=True)
                    if d and "order" in d:
                        failures.append(Failure("insertion-order-lost:%s>%s" % (dname, lname), "%s\ntext=%r" % (d, text[:300])))
                        break
            if order_claimed:
                evals += 1
                try:
                    again = yaml.dump_all(back, Dumper=D, **opts)
                except RecursionError:
                    raise
                except Exception as e:
                    failures.append(Failure("redump-raised:%s>%s:%s" % (dname, lname, exc_key(e)), exc_msg(e)))
                    continue
                if again != text:
                    failures.append(Failure("not-a-fixed-point:%s>%s" % (dname, lname), "%r\n!=\n%r" % (text[:300], again[:300])))
    nt = (big and perm_seed != 0) or "anchors>=2" in cl
    return Eval(failures, sorted(cl), nontrivial=nt, ident=repr(case), evals=evals,
                sample={"blueprints": repr(bps)[:300], "options": repr(opts), "perm_seed": perm_seed})


# ------------------------------------------------------------------------------------------------
# generators: one comparable key class per container

def key_classes():
    # families of distinct strings that some notion of "the same text" identifies (canonical equivalence, compatibility forms, case,
    # case folding, surrounding blanks, digits of other scripts): a sort order must still tell them apart
    alike = st.sampled_from(["caf\xe9", "cafe\u0301", "CAF\xc9", "cafe", "\u212b", "\xc5", "A\u030a", "\uff41", "a", "A", "\xdf", "ss", "SS", "\u017f", "s",
                             "\ufb01", "fi", "1", "\uff11", "\u0661", "\xb9", "x ", "x", " x", "x\u200b", "\u1e9b\u0323", "\u1e9b", "\u0323", "\u01c4", "\u01c5", "\u01c6"])
    strs = st.one_of(st.sampled_from(gv.WORDS + ["k1", "k2", "k10", "K", "\xe9", "zz", "Zz", "_", "10", "9"]), gv.key_text(), st.text(max_size=6), alike)
    nums = st.one_of(st.integers(-50, 50), st.integers(-2**65, 2**65), st.floats(allow_nan=False, allow_infinity=True), st.booleans(),
                     st.sampled_from([0, 8, 16, 24, 32, 3, 64, 1 << 61, (1 << 61) - 1, 2**61 - 1 + 8]))
    dates = gv.dates()
    naive = st.datetimes(min_value=datetime.datetime(1, 1, 2), max_value=datetime.datetime(9999, 12, 30))
    aware = st.tuples(naive, gv.tzinfos()).map(lambda t: t[0].replace(tzinfo=t[1]))
    return [strs, strs, alike, nums, nums, gv.binaries(), dates, naive, aware]


def blueprints(max_leaves=14):
    plain_leaf = gv.scalars(st.one_of(gv.text(6), st.sampled_from(gv.WORDS))).map(lambda v: ("s", v))
    tagged = st.tuples(st.sampled_from(APP_TAGS), st.sampled_from(["", "v", "1 2", "x: y"])).map(lambda t: ("s", Tagged(*t)))
    leaf = st.one_of(plain_leaf, plain_leaf, plain_leaf, plain_leaf, tagged)
    ref = st.integers(0, 30).map(lambda n: ("ref", n))

    def extend(ch):
        kids = st.one_of(ch, ch, ref, tagged)
        dicts = [st.lists(st.tuples(kc.map(lambda v: ("s", v)), kids), max_size=6).map(lambda l: ("d", l)) for kc in key_classes()]
        sets = [st.lists(kc.map(lambda v: ("s", v)), max_size=6).map(lambda l: ("set", l)) for kc in key_classes()]
        return st.one_of(st.lists(kids, max_size=4).map(lambda l: ("l", l)), *dicts, *sets)
    return st.recursive(leaf, extend, max_leaves=max_leaves)


def options():
    return st.one_of(st.just({}), st.just({"sort_keys": False}), st.fixed_dictionaries({}, optional={
        "default_style": st.sampled_from([None, '"', "'", "|", ">"]),
        "default_flow_style": st.sampled_from([True, False, None]),
        "canonical": st.sampled_from([None, True]),
        "indent": st.one_of(st.none(), st.integers(1, 10)),
        "width": st.sampled_from([None, 10, 20, 80, 1000]),
        "allow_unicode": st.sampled_from([None, True]),
        "line_break": st.sampled_from([None, "\n", "\r\n"]),
        "encoding": st.sampled_from([None, None, "utf-8", "utf-16-le"]),
        "explicit_start": st.sampled_from([None, True]),
        "explicit_end": st.sampled_from([None, True]),
        "version": st.sampled_from([None, (1, 1)]),
        "tags": st.sampled_from([None, None] + TAG_DIRECTIVES),
        "sort_keys": st.booleans(),
    }))


def cases():
    return st.tuples(st.lists(blueprints(), min_size=1, max_size=3), options(), st.integers(0, 2**30))


def shared_docs_cases():
    """Several documents each with shared sub-objects: anchor numbering must restart in every document."""
    shared = st.lists(st.one_of(st.just(("l", [("s", 1)])), st.just(("d", [(("s", "k"), ("s", "v"))])), blueprints(4)), min_size=1, max_size=3)

    def mk(items):
        # [x, y, x, y]: every container occurs twice -> one anchor each
        kids = list(items)
        return ("l", kids + [("ref", i + 1) for i in range(len(kids))])
    return st.tuples(st.lists(shared.map(mk), min_size=2, max_size=3), options(), st.integers(0, 2**30))


def shared_scalar_cases():
    """One date / datetime / aware datetime OBJECT referenced from several places (the representer anchors it): the fixed point
    and the hash-seed independence must hold for aliased scalars too."""
    scalar = st.one_of(gv.dates(), gv.datetimes())

    def mk(t):
        v, shape = t
        leaf = ("s", v)
        # build() returns the very same object for the same ("s", v) tuple instance
        bp = [("l", [leaf, leaf]), ("d", [(("s", "start"), leaf), (("s", "end"), leaf), (("s", "l"), ("l", [leaf]))]),
              ("l", [("d", [(("s", "a"), leaf)]), ("d", [(("s", "b"), leaf)]), leaf])][shape]
        return bp
    return st.tuples(st.lists(st.tuples(scalar, st.integers(0, 2)).map(mk), min_size=1, max_size=2), options(), st.integers(0, 2**30))


def arms(tier):
    return [Arm("values", eval_case, cases, quick=9000, thorough=250000),
            Arm("shared-docs", eval_case, shared_docs_cases, quick=3000, thorough=60000),
            Arm("shared-scalars", eval_case, shared_scalar_cases, quick=1500, thorough=40000)]


MIN_CLASS_COUNTS = {"opt:tags:two-prefixes-match-one-tag": 60, "application-tagged-values": 1500}
REQUIRED_CLASSES = ["opt:tags:two-prefixes-match-one-tag", "application-tagged-values", "sort_keys:on", "sort_keys:off", "container>=3-keys", "set>=2-members", "anchors>=2", "docs>1-with-anchors",
                    "keys:str", "keys:number", "keys:bytes", "keys:date", "keys:datetime", "keys:aware-datetime"]


def known_class(arm, case, key):
    """The listed libyaml defect (its emitter folds inside a more-indented line of a folded scalar, which changes the text):
    what CSafeDumper wrote then does not reload to the value, so neither the fixed point nor the key order can hold."""
    parts = key.split(":")
    if parts[0] in ("not-a-fixed-point", "insertion-order-lost", "reload-raised", "redump-raised") and len(parts) > 1 and parts[1].startswith("CSafeDumper"):
        from checks.c02 import c_folded_more_indented
        bps, opts, _ = case
        if any(c_folded_more_indented(gv.build(bp)[0], opts) for bp in bps):
            return "libyaml-folds-inside-more-indented-line"
    return None


def pinned_known(key, rec):
    from checks import c02
    return c02.pinned_known(key, rec)
