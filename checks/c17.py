"""C17 - Python objects survive dump / unsafe load as they survive pickle."""
import collections
import datetime
import decimal
import fractions
import os
import pickle
import re
import sys
import types

from hypothesis import strategies as st

from vlib import gen_values as gv
from vlib import ref_order
from vlib.compare import scalar_equal
from vlib.runner import Arm, Eval, Failure, VERIF
from vlib.util import exc_key, exc_msg, have_c

PROPERTY = "C17"
LEVEL = "exploration"
RULE = ("Hypothesis-generated object graphs over a class family with one class per reduction shape (instance dict; __slots__ with "
        "and without __dict__; __getstate__/__setstate__; __getnewargs__; __reduce__ returning 2-5 tuples with list and dict "
        "items; subclasses of list, dict, set, tuple, str, int; enum; namedtuple; frozen dataclass, a class whose reduction is registered with copyreg) plus tuples, complex, compiled regular expressions, "
        "frozenset, OrderedDict, bytearray, range, Decimal, Fraction, timedelta, dates, classes / functions / builtins / modules "
        "by name, nested in each other and in safe containers (also as dict keys and set members), with a sharing pass and "
        "cycles by construction (through lists, dicts and plain instance dicts = constructible; through tuples, constructor "
        "arguments, list/dict items of reduced objects or __setstate__ state = unconstructible); x dump options x Dumper/CDumper "
        "x UnsafeLoader/CUnsafeLoader/Loader, and FullLoader/CFullLoader for the acceptance clause. Oracle: the reference is "
        "pickle.loads(pickle.dumps(obj, 2)); the YAML result must be bisimilar to it: same exact classes, equal state "
        "recursively (NaN-aware), the same sharing partition over every object except str/bytes/int/float/bool/None/(), the "
        "same cycles; with an unconstructible cycle the outcome may also be ConstructorError. Full loaders must return the "
        "bisimilar result exactly when the dumped text has no python/object* or python/module tag and raise ConstructorError "
        "otherwise. Non-trivial = >= 2 distinct reduction shapes nested, or sharing, or a cycle, or an instance used as a key; "
        "distinct = hash of blueprint.")
ASSUMPTIONS = [
    "classes, functions, builtins and modules are compared by identity (pickle cannot pickle modules; 'by name' means the same object)",
    "a cycle counts as constructible only if every node on it is a list, a dict or a plain-__dict__ instance",
    "which cycles can be built is decided by vlib/ref_order.py, a reference model of the documented two-phase construction order "
    "run on the composed node graph of the dumped text: where it says a cycle cannot be built exactly ConstructorError ('found "
    "unconstructable recursive node') is required, elsewhere the result must be bisimilar to pickle's; cycles through lists, dicts "
    "and plain instances only that the model rejects are the listed known finding (reproduced by its pinned input)",
]


def _paths():
    d = os.path.join(VERIF, "canaries")
    if d not in sys.path:
        sys.path.append(d)
    import canary_objs
    import canary_shapes  # noqa: F401  (package whose submodule name is shadowed by one of its attributes)
    return canary_objs


NAMED = ["Plain", "func", "Color", "Point", "module", "len", "OrderedDict", "int", "join"]


def _identity_hashed(x):
    return type(x).__module__ == "canary_objs" and type(x).__hash__ is object.__hash__


class Builder:
    def __init__(self, co):
        self.co = co
        self.containers = []
        self.open = []          # (object id, kind) of open ancestors
        self.info = {"shapes": set(), "shared": 0, "cycle": 0, "unsafe_cycle": 0, "instance_key": 0, "setstate": 0, "frozen_key": 0}

    def named(self, i):
        co = self.co
        # modules are exercised by the 'modules' arm (pickle refuses them, so there is no pickle reference)
        shadowed = sys.modules["canary_shapes.circle"]      # reachable as sys.modules[name], not as an attribute of its package
        return [co.Plain, co.func, co.Color, co.Point, co.Slots, len, collections.OrderedDict, int, os.path.join,
                shadowed.circle, shadowed.Circle][i % 11]

    def ref(self, n):
        if not self.containers:
            return None
        obj, kind = self.containers[n % len(self.containers)]
        self.info["shared"] += 1
        ids = [i for i, _ in self.open]
        if id(obj) in ids:
            self.info["cycle"] += 1
            path = self.open[ids.index(id(obj)):]
            if any(k not in ("l", "d", "plain") for _, k in path):
                self.info["unsafe_cycle"] += 1
        return obj

    def reg(self, obj, kind):
        self.containers.append((obj, kind))
        self.open.append((id(obj), kind))
        self.info["shapes"].add(kind)

    def close(self):
        self.open.pop()

    def key(self, b, seen=None):
        v = self.go(b)
        try:
            hash(v)
        except TypeError:
            return repr(type(v))
        if seen is not None and _identity_hashed(v):
            if type(v) in seen:
                return "second-%s-key" % type(v).__name__
            seen.add(type(v))
        if type(v).__module__ == "canary_objs" and type(v).__name__ in ("Plain", "GetSet", "NewArgs", "Slots", "SlotsDict"):
            self.info["instance_key"] += 1
        if type(v).__name__ == "Frozen":
            self.info["frozen_key"] += 1
        return v

    def go(self, b):
        co = self.co
        k = b[0]
        if k == "s":
            return b[1]
        if k == "ref":
            return self.ref(b[1])
        if k == "named":
            self.info["shapes"].add("named")
            return self.named(b[1])
        if k == "singleton":
            # objects pickled by a global NAME: __reduce_ex__ returns a string (Ellipsis, NotImplemented), or a class whose
            # name is not an attribute of its __module__ (NoneType): both are listed known findings
            self.info["shapes"].add("singleton")
            self.info.setdefault("singletons", set()).add(b[1] % 3)
            return [Ellipsis, NotImplemented, type(None)][b[1] % 3]
        if k == "enum":
            self.info["shapes"].add("enum")
            return [co.Color.RED, co.Color.GREEN][b[1] % 2]
        if k == "l":
            out = []
            self.reg(out, "l")
            out.extend(self.go(c) for c in b[1])
            self.close()
            return out
        if k == "d":
            out = {}
            self.reg(out, "d")
            seen = set()
            for kb, vb in b[1]:
                kk = self.key(kb, seen)
                out[kk] = self.go(vb)
            self.close()
            return out
        if k == "od":
            out = collections.OrderedDict()
            self.reg(out, "od")
            seen = set()
            for kb, vb in b[1]:
                out[self.key(kb, seen)] = self.go(vb)
            self.close()
            return out
        if k in ("t", "fs", "set", "nt", "tuplesub"):
            # immutable / hashed containers are built after their children: a reference from inside cannot reach them
            marker = object()
            self.open.append((id(marker), k))
            items = [self.go(c) for c in b[1]]
            self.open.pop()
            self.info["shapes"].add(k)
            if k == "t":
                out = tuple(items)
            elif k == "tuplesub":
                out = co.TupleSub(items)
            elif k == "nt":
                out = co.Point(items[0] if items else None, items[1] if len(items) > 1 else None)
            else:
                if any(type(x).__name__ == "Frozen" for x in items):
                    self.info["frozen_key"] += 1
                hashable = []
                seen_types = set()
                for x in items:
                    try:
                        hash(x)
                    except TypeError:
                        hashable.append(repr(type(x)))
                        continue
                    if _identity_hashed(x):
                        # one identity-hashed instance per type and container: positions stay matchable across graphs
                        if type(x) in seen_types:
                            continue
                        seen_types.add(type(x))
                    hashable.append(x)
                out = frozenset(hashable) if k == "fs" else set(hashable)
            self.containers.append((out, k))
            return out
        if k == "plain":
            out = co.Plain()
            self.reg(out, "plain")
            for name, vb in b[1]:
                setattr(out, name, self.go(vb))
            self.close()
            return out
        if k == "slots":
            out = co.Slots()
            self.reg(out, "slots")
            out.a = self.go(b[1])
            out.b = self.go(b[2])
            self.close()
            return out
        if k == "slotsdict":
            out = co.SlotsDict()
            self.reg(out, "slotsdict")
            out.a = self.go(b[1])
            for name, vb in b[2]:
                setattr(out, name, self.go(vb))
            self.close()
            return out
        if k == "getset":
            out = co.GetSet()
            self.reg(out, "getset")
            self.info["setstate"] += 1
            out.payload = self.go(b[1])
            out.derived = ("derived", out.payload is None)
            self.close()
            return out
        if k == "newargs":
            out = co.NewArgs("tag%d" % (b[1] % 3), None)
            self.reg(out, "newargs")
            out.size = self.go(b[2])
            self.close()
            return out
        if k == "reduced":
            out = co.Reduced(2 + b[1] % 4)
            self.reg(out, "reduced")
            out.args = (b[1] % 7,)
            for c in b[2]:
                list.append(out, self.go(c))
            for name, vb in b[3]:
                out.extra[name] = self.go(vb)
            self.close()
            return out
        if k == "listsub":
            out = co.ListSub()
            self.reg(out, "listsub")
            out.extend(self.go(c) for c in b[1])
            for name, vb in b[2]:
                setattr(out, name, self.go(vb))
            self.close()
            return out
        if k == "dictsub":
            out = co.DictSub()
            self.reg(out, "dictsub")
            seen = set()
            for kb, vb in b[1]:
                out[self.key(kb, seen)] = self.go(vb)
            self.close()
            return out
        if k in ("odsub", "odslots"):
            out = co.ODSub() if k == "odsub" else co.ODSlots()
            self.reg(out, k)
            seen = set()
            for kb, vb in b[1]:
                out[self.key(kb, seen)] = self.go(vb)
            if k == "odsub":
                for name, vb in b[2]:
                    setattr(out, name, self.go(vb))
            else:
                out.limit = self.go(b[2])
            self.close()
            return out
        if k == "setsub":
            self.info["shapes"].add("setsub")
            out = co.SetSub()
            seen_types = set()
            for c in b[1]:
                v = self.go(c)
                if _identity_hashed(v):
                    if type(v) in seen_types:
                        continue
                    seen_types.add(type(v))
                if type(v).__name__ == "Frozen":
                    self.info["frozen_key"] += 1
                try:
                    out.add(v)
                except TypeError:
                    pass
            self.containers.append((out, "setsub"))
            return out
        if k == "strsub":
            self.info["shapes"].add("strsub")
            return co.StrSub(b[1])
        if k == "intsub":
            self.info["shapes"].add("intsub")
            return co.IntSub(b[1])
        if k == "registered":
            self.info["shapes"].add("registered")
            out = co.Registered(b[1])
            self.containers.append((out, "registered"))
            return out
        if k == "registeredsub":
            self.info["shapes"].add("registeredsub")
            out = co.RegisteredSub(b[1], extra=["x", b[1]])
            self.containers.append((out, "registeredsub"))
            return out
        if k == "complexsub":
            self.info["shapes"].add("complexsub")
            out = co.ComplexSub(b[1], 1)
            out.unit = "V"
            return out
        if k == "regex":
            self.info["shapes"].add("regex")
            import re as _re
            return _re.compile(["a+", "(x|y)*z", "^\\d+$"][b[1] % 3], [0, _re.I, _re.M | _re.S][b[1] % 3])
        if k == "frozen":
            self.info["shapes"].add("frozen")
            return co.Frozen(b[1], "y%d" % (b[1] % 3))
        if k == "stamps":
            # several instances whose reduction builds fresh datetime / complex objects
            self.info["shapes"].add("stamps")
            self.info["setstate"] += 1
            return [co.Stamp(b[1] + 3 * i) if (b[1] + i) % 3 else co.Phasor(b[1] + i, i) for i in range(2 + b[1] % 5)]
        if k == "tally":
            out = co.Tally()
            self.reg(out, "tally")
            seen = set()
            for kb, vb in b[1]:
                out[self.key(kb, seen)] = self.go(vb)
            self.close()
            return out
        if k == "journal":
            out = co.Journal()
            self.reg(out, "journal")
            for c in b[1]:
                out.append(self.go(c))
            self.close()
            return out
        raise AssertionError(b)


_MISSING = object()
IMMUTABLE_VALUE = (type(None), bool, int, float, str, bytes)
BY_EQ = (type(re.compile("")), complex, decimal.Decimal, fractions.Fraction, datetime.timedelta, datetime.date, datetime.datetime, range, bytearray)


def state_of(o):
    """(children list, extra comparable) for an arbitrary object of the family."""
    t = type(o)
    kids = []
    if isinstance(o, (list, tuple)):
        kids.extend(o)
    elif isinstance(o, dict):
        for k, v in o.items():
            kids.append(k)
            kids.append(v)
    d = getattr(o, "__dict__", None)
    if isinstance(d, dict) and not isinstance(o, (type, types.ModuleType, types.FunctionType)):
        for k in sorted(d):
            kids.append(k)
            kids.append(d[k])
    for cls in t.__mro__:
        for s in getattr(cls, "__slots__", ()) if isinstance(getattr(cls, "__slots__", ()), (tuple, list)) else ():
            if s != "__dict__" and hasattr(o, s):
                kids.append(s)
                kids.append(getattr(o, s))
    return kids


def graph_equal(a, b, notes=None):
    """None when bisimilar (types, state, sharing partition), else a message.  notes (a list): a different item order in an
    OrderedDict *subclass* instance is appended there instead of being returned (the caller decides: listed known finding
    under sort_keys)."""
    a2b, b2a = {}, {}
    stack = [(a, b, "$")]
    while stack:
        x, y, path = stack.pop()
        if type(x) is not type(y):
            return "%s: type %s.%s != %s.%s" % (path, type(x).__module__, type(x).__name__, type(y).__module__, type(y).__name__)
        if type(x) in IMMUTABLE_VALUE or (type(x) is tuple and x == ()) :
            if not scalar_equal(x, y):
                return "%s: value %r != %r" % (path, x, y)
            continue
        if isinstance(x, (type, types.ModuleType, types.FunctionType, types.BuiltinFunctionType)) or type(x).__name__ == "Color":
            if x is not y:
                return "%s: identity of named object %r is not preserved (%r)" % (path, x, y)
            continue
        if id(x) in a2b or id(y) in b2a:
            if a2b.get(id(x)) != id(y) or b2a.get(id(y)) != id(x):
                return "%s: sharing: %s object is %s in the reference and %s in the YAML result" % (
                    path, type(x).__name__, "shared" if id(x) in a2b else "distinct", "shared" if id(y) in b2a else "distinct")
            continue
        a2b[id(x)] = id(y)
        b2a[id(y)] = id(x)
        if type(x) in BY_EQ:
            if not scalar_equal(x, y) if isinstance(x, (complex, datetime.datetime)) else x != y:
                return "%s: value %r != %r" % (path, x, y)
            continue
        if isinstance(x, complex) and type(x) is not complex:
            if not scalar_equal(complex(x), complex(y)):
                return "%s: value %r != %r" % (path, x, y)
        if isinstance(x, (str, int)) and type(x) not in (str, int, bool):
            if str.__eq__(x, y) is not True if isinstance(x, str) else int.__eq__(x, y) is not True:
                return "%s: value %r != %r" % (path, x, y)
        if isinstance(x, (set, frozenset)):
            if len(x) != len(y):
                return "%s: set size %d != %d" % (path, len(x), len(y))
            # members: match by equality (members are hashable; identity-hashed instances cannot be matched across graphs)
            ys = list(y)
            for m in x:
                cand = [n for n in ys if type(n) is type(m) and (_identity_hashed(m) or n == m)]
                if not cand:
                    return "%s: set member %r missing" % (path, m)
                stack.append((m, cand[0], path + "{member}"))
                ys.remove(cand[0])
            continue
        if isinstance(x, dict):
            if len(x) != len(y):
                return "%s: dict size %d != %d (%.60r vs %.60r)" % (path, len(x), len(y), list(x), list(y))
            # keys are matched by equality (sort_keys may reorder them); identity-hashed instances by type, in order
            rest = list(y)
            for i, k1 in enumerate(x):
                k2 = _MISSING
                if type(k1).__module__ == "canary_objs" and type(k1).__hash__ is object.__hash__:
                    cand = [k for k in rest if type(k) is type(k1)]      # at most one per type and container, by construction
                    k2 = cand[0] if cand else _MISSING
                else:
                    for k in rest:
                        if type(k) is type(k1) and (k == k1 or (k != k and k1 != k1)):
                            k2 = k
                            break
                if k2 is _MISSING:
                    return "%s: key %.40r missing from %.80r" % (path, k1, list(y))
                rest = [k for k in rest if k is not k2]
                stack.append((k1, k2, "%s.key[%d]" % (path, i)))
                stack.append((x[k1], y[k2], "%s[%.20r]" % (path, k1)))
            if isinstance(x, collections.OrderedDict) and [repr(k)[:40] for k in x] != [repr(k)[:40] for k in y] and not any(
                    type(k).__module__ == "canary_objs" for k in x):
                if notes is not None and type(x) is not collections.OrderedDict:
                    notes.append("%s: item order of the OrderedDict subclass %s differs: %.80r vs %.80r" % (path, type(x).__name__, list(x), list(y)))
                else:
                    return "%s: OrderedDict order differs: %.80r vs %.80r" % (path, list(x), list(y))
            kids_x = [v for k in sorted(getattr(x, "__dict__", {}) or {}) for v in (k, x.__dict__[k])]
            kids_y = [v for k in sorted(getattr(y, "__dict__", {}) or {}) for v in (k, y.__dict__[k])]
            if len(kids_x) != len(kids_y):
                return "%s: instance dict differs" % path
            for i, (p, q) in enumerate(zip(kids_x, kids_y)):
                stack.append((p, q, "%s.__dict__[%d]" % (path, i)))
            for cls in type(x).__mro__:
                sl = cls.__dict__.get("__slots__", ())
                for sname in (sl if isinstance(sl, (tuple, list)) else ()):
                    if hasattr(x, sname) != hasattr(y, sname):
                        return "%s: slot %s is %s in the reference and %s in the YAML result" % (
                            path, sname, "set" if hasattr(x, sname) else "unset", "set" if hasattr(y, sname) else "unset")
                    if hasattr(x, sname):
                        stack.append((getattr(x, sname), getattr(y, sname), "%s.%s" % (path, sname)))
            continue
        kx, ky = state_of(x), state_of(y)
        if len(kx) != len(ky):
            return "%s: state of %s differs: %d vs %d components (%.80r vs %.80r)" % (path, type(x).__name__, len(kx), len(ky), kx, ky)
        for i, (p, q) in enumerate(zip(kx, ky)):
            stack.append((p, q, "%s<%s>.%d" % (path, type(x).__name__, i)))
    return None


def dumpers():
    import yaml
    return [("py", yaml.Dumper)] + ([("c", yaml.CDumper)] if have_c() else [])


def loaders():
    import yaml
    out = [("UnsafeLoader", yaml.UnsafeLoader), ("Loader", yaml.Loader), ("unsafe_load", "unsafe_load"), ("unsafe_load_all", "unsafe_load_all")]
    if have_c():
        out.append(("CUnsafeLoader", yaml.CUnsafeLoader))
    return out


def full_loaders():
    import yaml
    return [("FullLoader", yaml.FullLoader), ("full_load", "full_load")] + ([("CFullLoader", yaml.CFullLoader)] if have_c() else [])


def _load(yaml, text, L):
    """L is a loader class or the name of a convenience entry point."""
    if L == "unsafe_load":
        return yaml.unsafe_load(text)
    if L == "full_load":
        return yaml.full_load(text)
    if L == "unsafe_load_all":
        docs = list(yaml.unsafe_load_all(text))
        if len(docs) != 1:
            raise AssertionError("unsafe_load_all gave %d documents for one" % len(docs))
        return docs[0]
    return yaml.load(text, Loader=L)


def _has_setstate(name):
    obj = sys.modules.get(name.rsplit(".", 1)[0]) if "." in name else None
    cls = getattr(obj, name.rsplit(".", 1)[1], None) if obj is not None else None
    return hasattr(cls, "__setstate__")


_objtag = re.compile(r"python/(object|module)")


def _warm_other_dumpers():
    """Once per process: the application also dumps plain data with the safe dumpers of both back-ends (every core type, tuples
    included) - what the full dumpers write afterwards must not depend on it."""
    if getattr(_warm_other_dumpers, "done", False):
        return
    import datetime
    import yaml
    basket = [(), (1, 2), [1], {1: 2}, {3}, b"b", "s", 1, 2 ** 70, 1.5, True, None, datetime.date(2001, 1, 1), datetime.datetime(2001, 1, 1, 1, 1, 1)]
    yaml.safe_dump(basket)
    yaml.safe_dump_all(basket)
    if have_c():
        yaml.dump(basket, Dumper=yaml.CSafeDumper)
    yaml.safe_load(yaml.safe_dump(basket))
    _warm_other_dumpers.done = True


def eval_graph(case):
    import yaml
    co = _paths()
    _warm_other_dumpers()
    bp, opts = case
    b = Builder(co)
    obj = b.go(bp)
    info = b.info
    cl = set("shape:%s" % s for s in info["shapes"])
    if info["shared"]:
        cl.add("sharing")
    if info["cycle"]:
        cl.add("cycle")
    if info["unsafe_cycle"]:
        cl.add("cycle:unconstructible")
    elif info["cycle"]:
        cl.add("cycle:constructible")
    if info["instance_key"]:
        cl.add("instance-as-key")
    if info["frozen_key"]:
        cl.add("state-hashed-instance-as-key")
    failures = []
    evals = 0
    try:
        ref = pickle.loads(pickle.dumps(obj, 2))
    except RecursionError:
        return Eval([], sorted(cl | {"pickle-cannot"}), nontrivial=False, ident=repr(case), evals=1)
    except Exception as e:
        # pickle itself refuses this graph: there is no reference to compare with
        return Eval([], sorted(cl | {"pickle-cannot"}), nontrivial=False, ident=repr(case), evals=1)
    may_reject = False
    # deep construction (constructor arguments, list/dict items and state of python/object/new|apply nodes, __setstate__ state)
    # cannot build a cycle that is first reached inside it - even one that runs through lists and dicts only
    deep_shapes = info["shapes"] - {"l", "d", "plain", "t", "set", "fs", "named", "enum", "strsub", "intsub", "frozen"}
    known_deep = bool(info["cycle"] and (info["setstate"] or deep_shapes))
    for dname, D in dumpers():
        evals += 1
        try:
            text = yaml.dump(obj, Dumper=D, **opts)
        except RecursionError:
            raise
        except Exception as e:
            key = "dump-raised:%s:%s" % (dname, exc_key(e))
            if info.get("singletons", set()) & {0, 1} and isinstance(e, ValueError) and "represent_object" in exc_key(e):
                key = "reduce-returns-global-name:" + key
            failures.append(Failure(key, exc_msg(e)))
            continue
        plain_text = text if isinstance(text, str) else text.decode(opts.get("encoding") or "utf-8")
        has_obj = bool(_objtag.search(plain_text))
        # what the documented construction order can build (reference model on the composed node graph)
        try:
            root = yaml.compose(text, Loader=yaml.Loader)
        except Exception as e:
            failures.append(Failure("dump-output-does-not-compose:%s:%s" % (dname, exc_key(e)), "%s\ntext=%r" % (exc_msg(e), plain_text[:300])))
            continue
        offending = ref_order.simulate(root, _has_setstate) if root is not None else None
        model_rejects = offending is not None
        if model_rejects:
            cl.add("model-rejects:%s" % ("cycle-through-lists-dicts-instances-only(known finding)" if not info["unsafe_cycle"] else "unconstructible-cycle"))
        cl.add("text:has-object-tags" if has_obj else "text:tuple/complex/name-subset-only")
        for lname, L in loaders():
            evals += 1
            try:
                back = _load(yaml, text, L)
            except RecursionError as e:
                failures.append(Failure("RecursionError:%s>%s" % (dname, lname), "text=%r" % plain_text[:300]))
                continue
            except yaml.constructor.ConstructorError as e:
                if model_rejects and "unconstructable recursive" in str(e):
                    pass        # exactly what the model of the construction order predicts
                else:
                    key = "load-rejects-dump-output:%s>%s:%s" % (dname, lname, exc_key(e))
                    if 2 in info.get("singletons", set()) and "cannot find 'NoneType' in the module 'builtins'" in str(e):
                        key = "class-name-not-in-its-module:" + key
                    failures.append(Failure(key, "%s\ntext=%r" % (exc_msg(e), plain_text[:400])))
                continue
            except Exception as e:
                key = "load-raised:%s>%s:%s" % (dname, lname, exc_key(e))
                if info["frozen_key"] and isinstance(e, AttributeError):
                    key = "state-hashed-key:" + key
                failures.append(Failure(key, "%s\ntext=%r" % (exc_msg(e), plain_text[:400])))
                continue
            if model_rejects:
                failures.append(Failure("unbuildable-cycle-accepted:%s>%s" % (dname, lname), "the construction-order model says this document cannot be built\ntext=%r" % plain_text[:400]))
                continue
            notes = [] if opts.get("sort_keys", True) else None
            d = graph_equal(ref, back, notes)
            if notes and not d:
                failures.append(Failure("ordered-dict-subclass-items-sorted:%s>%s" % (dname, lname), "%s\ntext=%r" % (notes[0], plain_text[:400])))
            if d:
                kind = "sharing" if "sharing" in d else "identity" if "identity" in d else "type" if ": type " in d else "state"
                failures.append(Failure("differs-from-pickle:%s>%s:%s%s" % (dname, lname, kind, ""),
                                        "%s\ntext=%r" % (d, plain_text[:400])))
        for lname, L in full_loaders():
            evals += 1
            try:
                back = _load(yaml, text, L)
                exc = None
            except RecursionError:
                exc = "RecursionError"
                back = None
            except Exception as e:
                exc = e
            if has_obj:
                if exc is None:
                    failures.append(Failure("full-loader-accepts-object-tags:%s>%s" % (dname, lname), "text=%r" % plain_text[:300]))
                elif not isinstance(exc, yaml.constructor.ConstructorError):
                    failures.append(Failure("full-loader-wrong-error:%s>%s:%s" % (dname, lname, type(exc).__name__ if not isinstance(exc, str) else exc),
                                            "%s\ntext=%r" % (exc, plain_text[:300])))
            else:
                if exc is not None:
                    if model_rejects and isinstance(exc, yaml.constructor.ConstructorError):
                        continue
                    key = "full-loader-rejects-tuple/complex/name-subset:%s>%s:%s" % (dname, lname, type(exc).__name__ if not isinstance(exc, str) else exc)
                    if 2 in info.get("singletons", set()) and "cannot find 'NoneType' in the module 'builtins'" in str(exc):
                        key = "class-name-not-in-its-module:" + key
                    failures.append(Failure(key, "%s\ntext=%r" % (exc, plain_text[:300])))
                else:
                    d = graph_equal(ref, back)
                    if d:
                        failures.append(Failure("full-loader-differs-from-pickle:%s>%s" % (dname, lname), "%s\ntext=%r" % (d, plain_text[:300])))
    shapes = {s for s in info["shapes"] if s not in ("l", "d")}
    nt = len(shapes) >= 2 or info["shared"] or info["cycle"] or info["instance_key"]
    return Eval(failures, sorted(cl), nontrivial=bool(nt), ident=repr(case), evals=evals,
                sample={"blueprint": repr(bp)[:300], "options": repr(opts)})


# ------------------------------------------------------------------------------------------------

def scalars():
    return st.one_of(
        st.none(), st.booleans(), st.integers(-5, 100), st.floats(allow_nan=True), st.sampled_from(gv.WORDS + ["", "a b", "1", "\xe9"]),
        st.binary(max_size=6),
        # a negative-zero real or imaginary part is not written (listed known finding): not generated
        st.complex_numbers(allow_nan=False, allow_infinity=False, max_magnitude=1e6).map(lambda c: complex(c.real + 0.0, c.imag + 0.0)),
        st.sampled_from([decimal.Decimal("1.50"), fractions.Fraction(3, 4), datetime.timedelta(days=1, seconds=5), datetime.date(2001, 1, 2),
                         datetime.datetime(2001, 1, 2, 3, 4, 5, 6), range(1, 10, 2), bytearray(b"ab"), complex(1, -2), complex(0.0, float("inf"))]))


def hashable_scalars():
    return st.one_of(st.none(), st.booleans(), st.integers(-5, 100), st.sampled_from(gv.WORDS + ["k1", "k2"]), st.binary(max_size=4),
                     st.sampled_from([decimal.Decimal("1.50"), fractions.Fraction(3, 4), datetime.date(2001, 1, 2), complex(1, 2)]))


def blueprints(max_leaves=14):
    leaf = st.one_of(scalars().map(lambda v: ("s", v)), scalars().map(lambda v: ("s", v)),
                     st.integers(0, 8).map(lambda i: ("named", i)), st.integers(0, 1).map(lambda i: ("enum", i)),
                     st.sampled_from(["s1", "", "x y"]).map(lambda s: ("strsub", s)), st.integers(-3, 3).map(lambda i: ("intsub", i)),
                     st.integers(0, 5).map(lambda i: ("frozen", i)), st.integers(0, 5).map(lambda i: ("registered", i)),
                     st.integers(0, 5).map(lambda i: ("regex", i)), st.integers(0, 5).map(lambda i: ("registeredsub", i)),
                     st.integers(0, 5).map(lambda i: ("complexsub", i)), st.integers(0, 30).map(lambda i: ("stamps", i)))
    leaf = st.tuples(leaf, st.sampled_from(range(300))).map(lambda t: ("singleton", t[1]) if 150 <= t[1] < 153 else t[0])      # 1 leaf in 100
    ref = st.integers(0, 40).map(lambda n: ("ref", n))
    attr = st.sampled_from(["a", "b", "c", "name", "value"])
    hkey = st.one_of(hashable_scalars().map(lambda v: ("s", v)), hashable_scalars().map(lambda v: ("s", v)),
                     st.integers(0, 1).map(lambda i: ("enum", i)), st.integers(0, 5).map(lambda i: ("frozen", i)),
                     st.lists(hashable_scalars().map(lambda v: ("s", v)), max_size=2).map(lambda l: ("t", l)),
                     st.lists(hashable_scalars().map(lambda v: ("s", v)), min_size=2, max_size=2).map(lambda l: ("nt", l)),
                     st.just(("plain", [])), st.tuples(st.just("newargs"), st.integers(0, 5), st.just(("s", 1))))

    def extend(ch):
        kids = st.one_of(ch, ch, ch, ref)
        attrs = st.lists(st.tuples(attr, kids), max_size=3)
        # keys that carry state of their own (and may refer back to themselves or to the mapping)
        skey = st.one_of(hkey, hkey, hkey, attrs.map(lambda a: ("plain", a)), st.tuples(st.just("newargs"), st.integers(0, 5), kids))
        return st.one_of(
            st.lists(kids, max_size=4).map(lambda l: ("l", l)),
            st.lists(st.tuples(skey, kids), max_size=4).map(lambda l: ("d", l)),
            st.lists(skey, max_size=3).map(lambda l: ("set", l)),
            st.lists(kids, max_size=3).map(lambda l: ("t", l)),
            st.lists(hkey, max_size=3).map(lambda l: ("set", l)),
            st.lists(hkey, max_size=3).map(lambda l: ("fs", l)),
            st.lists(st.tuples(hkey, kids), max_size=3).map(lambda l: ("od", l)),
            attrs.map(lambda a: ("plain", a)), attrs.map(lambda a: ("plain", a)),
            st.tuples(st.just("slots"), kids, kids),
            st.tuples(st.just("slotsdict"), kids, attrs),
            st.tuples(st.just("getset"), kids),
            st.tuples(st.just("newargs"), st.integers(0, 5), kids),
            st.tuples(st.just("reduced"), st.integers(0, 20), st.lists(kids, max_size=3), attrs),
            st.tuples(st.just("listsub"), st.lists(kids, max_size=3), attrs),
            st.lists(st.tuples(hkey, kids), max_size=3).map(lambda l: ("dictsub", l)),
            st.lists(hkey, max_size=3).map(lambda l: ("setsub", l)),
            st.lists(st.tuples(hkey, kids), max_size=3).map(lambda l: ("tally", l)),
            st.lists(kids, max_size=3).map(lambda l: ("journal", l)),
            st.tuples(st.just("odsub"), st.lists(st.tuples(hkey, kids), max_size=3), attrs),
            st.tuples(st.just("odslots"), st.lists(st.tuples(hkey, kids), max_size=3), kids),
            st.lists(kids, min_size=1, max_size=3).map(lambda l: ("tuplesub", l)),     # an empty one is never anchored: known finding
            st.lists(kids, min_size=2, max_size=2).map(lambda l: ("nt", l)))
    return st.recursive(leaf, extend, max_leaves=max_leaves)


def options():
    return st.one_of(st.just({}), st.just({}), st.fixed_dictionaries({}, optional={
        "default_flow_style": st.sampled_from([True, False, None]), "canonical": st.sampled_from([None, True]),
        "default_style": st.sampled_from([None, '"', "'"]), "indent": st.sampled_from([None, 4]), "width": st.sampled_from([None, 20]),
        "allow_unicode": st.sampled_from([None, True]), "sort_keys": st.booleans(), "encoding": st.sampled_from([None, "utf-8"])}))


def cases():
    return st.tuples(blueprints(), options())


def enum_modules(shard, nshards, tier):
    if shard == 0:
        for shape in range(6):
            for dname in ("py", "c"):
                yield (shape, dname)


def eval_modules(case):
    """Modules by name: the same module object comes back (identity), at the root, in containers and as a shared value."""
    import yaml
    co = _paths()
    shape, dname = case
    D = dict(dumpers()).get(dname)
    if D is None:
        return Eval([], ["modules:no-c-backend"], nontrivial=False, ident=repr(case), evals=1)
    shadowed = sys.modules["canary_shapes.circle"]
    value = [co, [co, os.path], {"m": collections, "n": [co]}, (sys, co), shadowed, [shadowed, sys.modules["canary_shapes"], shadowed]][shape]
    failures = []
    evals = 0
    text = yaml.dump(value, Dumper=D)
    for lname, L in loaders():
        evals += 1
        try:
            back = _load(yaml, text, L)
        except Exception as e:
            failures.append(Failure("module-load-raised:%s>%s:%s" % (dname, lname, exc_key(e)), exc_msg(e)))
            continue
        d = graph_equal(value, back)
        if d:
            failures.append(Failure("module-identity:%s>%s" % (dname, lname), "%s\ntext=%r" % (d, text[:200])))
    for lname, L in full_loaders():
        evals += 1
        try:
            _load(yaml, text, L)
            failures.append(Failure("full-loader-accepts-module-tag:%s>%s" % (dname, lname), "text=%r" % text[:200]))
        except yaml.constructor.ConstructorError:
            pass
        except Exception as e:
            failures.append(Failure("full-loader-wrong-error:%s>%s:%s" % (dname, lname, type(e).__name__), exc_msg(e)))
    return Eval(failures, ["shape:module"], nontrivial=True, ident=repr(case), evals=evals, sample={"text": text[:200]})


def arms(tier):
    return [Arm("graphs", eval_graph, cases, quick=14000, thorough=300000),
            Arm("modules", eval_modules, enum=enum_modules, exhaustive=True, shards=1)]


REQUIRED_CLASSES = ["shape:plain", "shape:slots", "shape:slotsdict", "shape:getset", "shape:newargs", "shape:reduced", "shape:listsub",
                    "shape:singleton", "shape:dictsub", "shape:odsub", "shape:odslots", "shape:setsub", "shape:tuplesub", "shape:strsub", "shape:intsub", "shape:enum", "shape:nt", "shape:frozen",
                    "shape:named", "shape:module", "shape:registered", "shape:registeredsub", "shape:complexsub", "shape:regex", "shape:t", "shape:fs", "shape:od", "sharing", "cycle:constructible", "cycle:unconstructible",
                    "instance-as-key", "text:tuple/complex/name-subset-only", "text:has-object-tags"]


def known_class(arm, case, key):
    if key.startswith("state-hashed-key:"):
        return "mapping-key-hashed-before-its-state-is-set"
    if key.startswith("reduce-returns-global-name:"):
        return "reduce-returning-a-global-name-makes-dump-raise-valueerror"
    if key.startswith("class-name-not-in-its-module:"):
        return "class-whose-name-is-not-in-its-module-dumps-an-unloadable-name"
    if key.startswith("ordered-dict-subclass-items-sorted:"):
        return "ordereddict-subclass-items-sorted-on-dump"
    return None


def _empty_tuplesub_shared():
    import yaml
    co = _paths()
    t = co.TupleSub(())
    back = yaml.unsafe_load(yaml.dump([t, t]))
    return back[0] is not back[1]


def pinned_known(key, rec):
    import yaml
    co = _paths()
    if key == "mapping-key-hashed-before-its-state-is-set":
        try:
            yaml.unsafe_load(yaml.dump({co.Frozen(1): "v"}))
            return False
        except AttributeError:
            return True
    if key == "empty-tuple-subclass-instance-never-anchored":
        return _empty_tuplesub_shared()
    if key == "reduce-returning-a-global-name-makes-dump-raise-valueerror":
        try:
            yaml.dump([Ellipsis], Dumper=yaml.Dumper)
            return False
        except ValueError:
            return True
    if key == "class-whose-name-is-not-in-its-module-dumps-an-unloadable-name":
        try:
            yaml.unsafe_load(yaml.dump(type(None)))
            return False
        except yaml.constructor.ConstructorError:
            return True
    if key == "ordereddict-subclass-items-sorted-on-dump":
        o = co.ODSub()
        o["b"] = 1
        o["a"] = 2
        return list(yaml.unsafe_load(yaml.dump(o))) == ["a", "b"] and list(yaml.unsafe_load(yaml.dump(o, sort_keys=False))) == ["b", "a"]
    if key == "complex-negative-zero-component-lost":
        import math
        back = yaml.unsafe_load(yaml.dump(complex(1.5, -0.0)))
        return math.copysign(1.0, back.imag) > 0
    if key == "deep-construction-rejects-cycle-first-reached-from-setstate-state":
        from checks import c13
        return c13.pinned_known(key, rec)
    return True
