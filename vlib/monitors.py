"""Monitors of observable effects: call budget, audit hook, profile monitor, instrumented streams."""
import sys


class BudgetExceeded(BaseException):
    pass


class CallBudget:
    """Counts interpreter-level function calls (PY_START events) and aborts past a budget: a deterministic
    stand-in for 'does not hang'.  Uses sys.monitoring (3.12+), falling back to sys.setprofile."""
    TOOL = 4

    def __init__(self, budget=None, count_resume=False):
        self.budget = budget
        self.calls = 0
        # generator / coroutine resumptions are frame entries too (sys.setprofile reports each as a 'call'); C20 counts them,
        # so that per-element work hidden in a generator expression is seen
        self.count_resume = count_resume

    def __enter__(self):
        self.calls = 0
        mon = getattr(sys, "monitoring", None)
        if mon is not None:
            self.mon = mon
            try:
                mon.use_tool_id(self.TOOL, "verif-call-budget")
            except ValueError:
                mon.free_tool_id(self.TOOL)
                mon.use_tool_id(self.TOOL, "verif-call-budget")
            mon.register_callback(self.TOOL, mon.events.PY_START, self._cb)
            events = mon.events.PY_START
            if self.count_resume:
                mon.register_callback(self.TOOL, mon.events.PY_RESUME, self._cb)
                events |= mon.events.PY_RESUME
            mon.set_events(self.TOOL, events)
        else:
            self.mon = None
            sys.setprofile(self._prof)
        return self

    def _cb(self, code, offset):
        self.calls += 1
        if self.budget is not None and self.calls > self.budget:
            self.mon.set_events(self.TOOL, 0)
            raise BudgetExceeded(self.calls)

    def _prof(self, frame, event, arg):
        if event == "call":
            self.calls += 1
            if self.budget is not None and self.calls > self.budget:
                sys.setprofile(None)
                raise BudgetExceeded(self.calls)

    def __exit__(self, *a):
        if self.mon is not None:
            self.mon.set_events(self.TOOL, 0)
            self.mon.register_callback(self.TOOL, self.mon.events.PY_START, None)
            if self.count_resume:
                self.mon.register_callback(self.TOOL, self.mon.events.PY_RESUME, None)
            self.mon.free_tool_id(self.TOOL)
        else:
            sys.setprofile(None)
        return False
