"""Reference model of the documented two-phase construction order, on a composed node graph (used by C17).

The constructor builds containers and plain instances in two phases: the object is created and becomes resolvable by
aliases, its contents are filled in later (at the end of the document, or at once when it is being constructed in *deep*
mode).  Tuples and everything produced by python/object/new and python/object/apply are built in one step from fully
(deeply) constructed children and only then become resolvable; the state of a class with __setstate__ is constructed
deeply as well.  An alias that reaches a node which is under construction but not yet resolvable cannot be built: the
loader must raise "found unconstructable recursive node".

simulate(root, has_setstate) -> None when the document can be built, else the offending node.
"""
T = "tag:yaml.org,2002:"
GEN_TAGS = {T + "seq", T + "map", T + "set", T + "omap", T + "pairs", T + "python/list", T + "python/dict"}


class Rejected(Exception):
    pass


def kind_of(node, has_setstate):
    if node.id == "scalar":
        return "s", False
    tag = node.tag
    if tag in GEN_TAGS:
        return "gen", False
    if tag == T + "python/tuple":
        return "t", False
    if tag.startswith(T + "python/object:"):
        return "gen", has_setstate(tag[len(T + "python/object:"):])
    if tag.startswith(T + "python/object/new:") or tag.startswith(T + "python/object/apply:"):
        return "apply", True
    return "gen", False


def simulate(root, has_setstate):
    done, busy = set(), set()
    deferred = []
    state = {"deep": False}

    def kids(node, deep):
        if node.id == "sequence":
            if node.tag in (T + "omap", T + "pairs"):
                for sub in node.value:
                    if sub.id == "mapping":
                        for k, v in sub.value:
                            construct(k, deep)
                            construct(v, deep)
                    else:
                        construct(sub, deep)
            else:
                for c in node.value:
                    construct(c, deep)
        elif node.id == "mapping":
            for k, v in node.value:
                construct(k, deep)
                construct(v, deep)

    def construct(node, deep=False):
        if id(node) in done:
            return
        old = state["deep"]
        if deep:
            state["deep"] = True
        try:
            if id(node) in busy:
                raise Rejected(node)
            busy.add(id(node))
            k, deep_children = kind_of(node, has_setstate)
            if k == "t":
                kids(node, False)
            elif k == "apply":
                kids(node, True)
            elif k == "gen":
                if state["deep"]:
                    kids(node, deep_children)
                else:
                    deferred.append((node, deep_children))
            done.add(id(node))
            busy.discard(id(node))
        finally:
            if deep:
                state["deep"] = old

    try:
        construct(root)
        while deferred:
            batch = list(deferred)
            del deferred[:]
            for node, deep_children in batch:
                kids(node, deep_children)
    except Rejected as r:
        return r.args[0]
    return None
