"""Event-stream grammar generator (well-formed and ill-formed) and event equivalence (DESIGN 2.6, C05).

Cases are plain data so that they pickle/hash; build_events() turns them into yaml event objects.

  stream := [doc...]
  doc    := {"version":..., "tags":..., "explicit_start": bool, "explicit_end": bool, "root": node}
  node   := ("scalar", anchor?, tag, (plain_implicit, quoted_implicit), value, style)
          | ("seq", anchor?, tag, implicit, flow_style, [node...])
          | ("map", anchor?, tag, implicit, flow_style, [(node, node)...])
          | ("alias", n)
anchor? is a bool; names are assigned a1, a2, ... in document order; ("alias", n) refers to the
(n mod k)-th anchor defined so far in the same document (or becomes a scalar when there is none).
"""
from hypothesis import strategies as st

from vlib import gen_values as gv

DOC_TAGS = [None, None, None, {"!e!": "tag:example.com,2000:"}, {"!e!": "!my-", "!f-1!": "tag:f.org,2001:x/"},
            {"!!": "tag:example.com,2000:"}, {"!": "!my-"}, {"!e!": "tag:\xe9x.org,2000:"}, {"!e0!": "tag:example.com,2000:", "!9_z!": "!my-"}]

SCALAR_TAGS = [None, None, None, "!", "!local", "!local/x-y", "tag:yaml.org,2002:str", "tag:yaml.org,2002:int",
               "tag:yaml.org,2002:null", "tag:example.com,2000:\xe9/x", "tag:example.com,2000:app/foo",
               "tag:example.com,2000:", "!my-thing", "tag:f.org,2001:x/y z", "x-private:a!b", "tag:weird,[a]{b}",
               "!!", "!a!b", "tag:yaml.org,2002:python/name:a.b", "!日本",
               "tag:example.com,2000:a+b;c=d&e@f$g~h*i'j(k)l/m?n:o-p_q.r", "!a+b;c=d&e@f$g~h*i'j(k)l", "tag:example.com,2000:Az09+~*",
               # flow indicators: allowed verbatim, must be escaped in a shorthand
               "!a,b[c]", "tag:example.com,2000:p[q],r", "!AZaz09", "tag:example.com,2000:AZaz09"]
SEQ_TAGS = [None, None, None, "!", "!local", "tag:example.com,2000:[s]", "tag:yaml.org,2002:seq", "tag:yaml.org,2002:set", "tag:example.com,2000:s",
            "tag:example.com,2000:\xe9", "!my-seq", "tag:yaml.org,2002:python/tuple"]
MAP_TAGS = [None, None, None, "!", "!local", "tag:example.com,2000:m,n", "tag:yaml.org,2002:map", "tag:yaml.org,2002:omap", "tag:example.com,2000:m",
            "tag:example.com,2000:\xe9", "!my-map", "tag:yaml.org,2002:python/dict"]
STYLES = [None, None, "", '"', "'", "|", ">"]


def scalar_nodes(texts=None):
    texts = texts if texts is not None else st.one_of(gv.text(10), st.sampled_from(["", "a", "key", "1", "~", "a b"]))

    def fix(t):
        anchor, tag, imp, value, style = t
        if tag is None and not (imp[0] or imp[1]):
            imp = (True, True)
        return ("scalar", anchor, tag, imp, value, style)
    return st.tuples(st.sampled_from([False, False, False, True]), st.sampled_from(SCALAR_TAGS),
                     st.sampled_from([(True, True), (True, False), (False, True), (False, False), (True, True)]),
                     texts, st.sampled_from(STYLES)).map(fix)


def nodes(max_leaves=12, texts=None):
    leaf = st.one_of(scalar_nodes(texts), scalar_nodes(texts), scalar_nodes(texts),
                     st.integers(0, 20).map(lambda n: ("alias", n)))
    key = st.one_of(scalar_nodes(st.one_of(gv.key_text(), st.sampled_from(["k", "key", "a b", ""]))), leaf)

    def extend(children):
        def seq(t):
            anchor, tag, imp, flow, items = t
            return ("seq", anchor, tag, imp or tag is None, flow, items)

        def mp(t):
            anchor, tag, imp, flow, items = t
            return ("map", anchor, tag, imp or tag is None, flow, items)
        return st.one_of(
            st.tuples(st.sampled_from([False, False, True]), st.sampled_from(SEQ_TAGS), st.booleans(),
                      st.sampled_from([None, True, False]), st.lists(children, max_size=4)).map(seq),
            st.tuples(st.sampled_from([False, False, True]), st.sampled_from(MAP_TAGS), st.booleans(),
                      st.sampled_from([None, True, False]),
                      st.lists(st.tuples(st.one_of(key, key, children), children), max_size=4)).map(mp))
    return st.recursive(leaf, extend, max_leaves=max_leaves)


def documents(max_leaves=12, texts=None, doc_tags=None, versions=(None, None, (1, 1), (1, 2))):
    return st.fixed_dictionaries({
        "version": st.sampled_from(list(versions)),
        "tags": st.sampled_from(doc_tags if doc_tags is not None else DOC_TAGS),
        "explicit_start": st.booleans(),
        "explicit_end": st.booleans(),
        "root": nodes(max_leaves, texts),
    })


def streams(max_docs=3, max_leaves=12, texts=None, doc_tags=None):
    return st.lists(documents(max_leaves, texts, doc_tags), min_size=0, max_size=max_docs)


def emit_options():
    return st.fixed_dictionaries({}, optional={
        "canonical": st.sampled_from([None, True, False]),
        "indent": st.one_of(st.none(), st.integers(0, 12)),
        "width": st.sampled_from([None, 0, 1, 2, 5, 10, 20, 40, 80, 1000]),
        "allow_unicode": st.sampled_from([None, True, False]),
        "line_break": st.sampled_from([None, "\n", "\r", "\r\n"]),
    })


def build_events(stream, info=None):
    """plain data -> list of yaml events."""
    from yaml import events as E
    info = info if info is not None else {}
    out = [E.StreamStartEvent()]
    for doc in stream:
        out.append(E.DocumentStartEvent(explicit=doc["explicit_start"], version=doc["version"],
                                        tags=dict(doc["tags"]) if doc["tags"] else None))
        anchors = []
        counter = [0]

        def new_anchor(flag):
            if not flag:
                return None
            counter[0] += 1
            name = ["a%d", "A-%d", "z_%d", "Z9-%d_"][counter[0] % 4] % counter[0]
            # now and then (a pure function of the position in the stream) a name at and around the lengths where a key stops
            # being a simple key (128) or a simple key stops being readable (1024)
            sel = (counter[0] * 2654435761 + len(out) * 40503) % 89
            if sel < 7:
                name = name + "x" * ([127, 128, 129, 1023, 1024, 1030, 2000][sel] - len(name))
            anchors.append(name)
            return name

        def go(node):
            kind = node[0]
            if kind == "alias":
                if not anchors:
                    out.append(E.ScalarEvent(None, None, (True, True), "noalias"))
                else:
                    info["alias"] = info.get("alias", 0) + 1
                    out.append(E.AliasEvent(anchors[node[1] % len(anchors)]))
            elif kind == "scalar":
                _, anchor, tag, imp, value, style = node
                if tag is not None:
                    info["tag"] = info.get("tag", 0) + 1
                out.append(E.ScalarEvent(new_anchor(anchor), tag, tuple(imp), value, style=style))
            elif kind == "seq":
                _, anchor, tag, imp, flow, items = node
                out.append(E.SequenceStartEvent(new_anchor(anchor), tag, imp, flow_style=flow))
                for c in items:
                    go(c)
                out.append(E.SequenceEndEvent())
            elif kind == "map":
                _, anchor, tag, imp, flow, items = node
                out.append(E.MappingStartEvent(new_anchor(anchor), tag, imp, flow_style=flow))
                for k, v in items:
                    go(k)
                    go(v)
                out.append(E.MappingEndEvent())
            else:
                raise AssertionError(kind)
        go(doc["root"])
        if anchors:
            info["anchor"] = info.get("anchor", 0) + len(anchors)
        out.append(E.DocumentEndEvent(explicit=doc["explicit_end"]))
    out.append(E.StreamEndEvent())
    return out


def scalar_texts(stream):
    out = []

    def go(n):
        if n[0] == "scalar":
            out.append(n[4])
        elif n[0] == "seq":
            for c in n[5]:
                go(c)
        elif n[0] == "map":
            for k, v in n[5]:
                go(k)
                go(v)
    for d in stream:
        go(d["root"])
    return out


def ev_repr(ev):
    name = type(ev).__name__
    attrs = []
    for a in ("anchor", "tag", "implicit", "value", "style", "explicit", "version", "tags", "flow_style"):
        if hasattr(ev, a):
            attrs.append("%s=%r" % (a, getattr(ev, a)))
    return "%s(%s)" % (name, ", ".join(attrs))


def events_equivalent(orig, parsed):
    """C05 event equivalence.  None when equivalent, else (kind, message)."""
    from yaml import events as E
    if [type(e).__name__ for e in orig] != [type(e).__name__ for e in parsed]:
        a = [type(e).__name__.replace("Event", "") for e in orig]
        b = [type(e).__name__.replace("Event", "") for e in parsed]
        i = 0
        while i < min(len(a), len(b)) and a[i] == b[i]:
            i += 1
        return ("structure", "event kinds differ at %d: %s vs %s" % (i, a[max(0, i - 2):i + 3], b[max(0, i - 2):i + 3]))
    for i, (o, p) in enumerate(zip(orig, parsed)):
        if isinstance(o, E.DocumentStartEvent):
            if (o.version or None) != (p.version or None):
                return ("version", "event %d: %%YAML %r -> %r" % (i, o.version, p.version))
            if (o.tags or None) != (p.tags or None):
                return ("tag-directives", "event %d: %%TAG %r -> %r" % (i, o.tags, p.tags))
            if o.explicit and not p.explicit:
                return ("explicit-start", "event %d: explicit document start lost" % i)
        elif isinstance(o, E.DocumentEndEvent):
            if o.explicit and not p.explicit:
                return ("explicit-end", "event %d: explicit document end lost" % i)
        elif isinstance(o, E.AliasEvent):
            if o.anchor != p.anchor:
                return ("alias", "event %d: alias %r -> %r" % (i, o.anchor, p.anchor))
        elif isinstance(o, E.ScalarEvent):
            if o.anchor != p.anchor:
                return ("anchor", "event %d: anchor %r -> %r" % (i, o.anchor, p.anchor))
            if o.value != p.value:
                return ("scalar-value", "event %d: value %r -> %r (style %r)" % (i, o.value, p.value, p.style))
            plain = not p.style
            if p.tag == o.tag:
                pass
            elif p.tag is None:
                if not o.implicit[0 if plain else 1]:
                    return ("tag-lost", "event %d: tag %r elided but implicit=%r and style=%r" % (i, o.tag, o.implicit, p.style))
            elif p.tag == "!" and not plain and o.implicit[0]:
                pass
            else:
                return ("tag-changed", "event %d: tag %r -> %r (implicit=%r, style %r)" % (i, o.tag, p.tag, o.implicit, p.style))
            if o.style == '"' and p.style != '"':
                return ("style", "event %d: double-quoted style requested, got %r" % (i, p.style))
        elif isinstance(o, E.CollectionStartEvent):
            if o.anchor != p.anchor:
                return ("anchor", "event %d: anchor %r -> %r" % (i, o.anchor, p.anchor))
            if p.tag == o.tag:
                pass
            elif p.tag is None:
                if not o.implicit:
                    return ("tag-lost", "event %d: collection tag %r elided but implicit is false" % (i, o.tag))
            else:
                return ("tag-changed", "event %d: collection tag %r -> %r" % (i, o.tag, p.tag))
    return None
