"""Shared runner: sharding, seeding, collect-then-shrink, known findings, evidence, replay.

A check module (checks/cNN.py) exposes

    PROPERTY = "C02"
    LEVEL = "exploration"            # or "fault_enumeration"
    RULE = "... how cases are generated and what is non-trivial ..."
    ASSUMPTIONS = [...]
    def arms(tier) -> list[Arm]
    def known_class(arm_name, case, failure_key) -> str | None   (optional)
    REQUIRED_CLASSES = {...}          (optional: classes that must be reached, else exit 2)

An Arm is either Hypothesis-driven (strategy + number of examples) or an enumerator
(enum(shard, nshards) -> iterator of cases; exhaustive=True when it covers a finite space).
evaluate(case) -> Eval never raises for a property violation; an exception escaping from it is
a harness error (exit 2), never a VIOLATION.
"""
import base64
import collections
import hashlib
import importlib
import json
import os
import pickle
import subprocess
import sys
import tempfile
import time
import traceback

VERIF = os.path.dirname(os.path.dirname(os.path.abspath(__file__)))
REPO = os.environ.get("VERIF_REPO", "/repo")
# sensitivity runs against scratch copies write their evidence and replay files elsewhere (never set by registered commands)
OUT = os.environ.get("VERIF_OUT") or None


def setup_paths():
    lib = os.path.join(REPO, "lib")
    if lib in sys.path:
        sys.path.remove(lib)
    sys.path.insert(0, lib)
    deps = os.path.join(VERIF, ".deps")
    if os.path.isdir(deps) and deps not in sys.path:
        sys.path.append(deps)
    if VERIF not in sys.path:
        sys.path.insert(1, VERIF)


class Failure:
    __slots__ = ("key", "msg")

    def __init__(self, key, msg=""):
        self.key = str(key)
        self.msg = str(msg)[:2000]

    def __repr__(self):
        return "Failure(%r, %r)" % (self.key, self.msg)


class Eval:
    """Result of evaluating one case."""
    __slots__ = ("failures", "classes", "nontrivial", "ident", "sample", "evals")

    def __init__(self, failures=None, classes=(), nontrivial=False, ident=None, sample=None, evals=1):
        self.failures = failures or []
        self.classes = classes
        self.nontrivial = nontrivial
        self.ident = ident
        self.sample = sample
        self.evals = evals      # number of executions against the code under test


CASE_CPU_LIMIT_S = float(os.environ.get("VERIF_CASE_CPU_S", "120"))


class CaseStuck(BaseException):
    pass


def _case_stuck(signum, frame):
    raise CaseStuck()


def evaluate(arm, case):
    """arm.evaluate(case); an exception that escapes the check's own handling and was raised INSIDE the library under test
    (innermost frame in <repo>/lib) is what the library did to this case: it is reported as a violation with a replay file.
    Any other escaping exception is a defect of the harness and propagates (exit 2)."""
    import signal
    armed = False
    try:
        old_handler = signal.signal(signal.SIGVTALRM, _case_stuck)
        signal.setitimer(signal.ITIMER_VIRTUAL, CASE_CPU_LIMIT_S)
        armed = True
    except (ValueError, AttributeError, OSError):
        pass            # not the main thread / no such timer: no per-case limit
    try:
        return arm.evaluate(case)
    except CaseStuck:
        # CPU time of this process, not wall time: machine load does not count.  Typical cases take milliseconds to seconds.
        return Eval([Failure("no-result:cpu-time-limit:%s" % arm.name, "evaluating this case used more than %.0f s of CPU time (typical: well under a second): "
                             "a library call does not terminate" % CASE_CPU_LIMIT_S)], ["evaluation-stuck"], nontrivial=True, ident=safe_repr(case, 2000))
    except (KeyboardInterrupt, SystemExit, MemoryError):
        raise
    except BaseException as e:
        tb = e.__traceback__
        inner = None
        while tb is not None:
            inner = tb.tb_frame.f_code
            tb = tb.tb_next
        lib = os.path.realpath(os.path.join(REPO, "lib")) + os.sep
        if inner is None or not os.path.realpath(inner.co_filename).startswith(lib) or isinstance(e, RecursionError):
            raise
        key = "library-raised-unexpectedly:%s@%s:%s" % (type(e).__name__, os.path.basename(inner.co_filename), inner.co_name)
        return Eval([Failure(key, "%s: %s" % (type(e).__name__, safe_repr(str(e), 300)))], ["evaluation-raised-in-library"],
                    nontrivial=True, ident=safe_repr(case, 2000))
    finally:
        if armed:
            signal.setitimer(signal.ITIMER_VIRTUAL, 0)
            signal.signal(signal.SIGVTALRM, old_handler)


class Arm:
    def __init__(self, name, evaluate, strategy=None, quick=0, thorough=0, enum=None,
                 exhaustive=False, shards=None, describe=None, weight=1.0):
        self.name = name
        self.evaluate = evaluate
        self.strategy = strategy      # zero-arg callable returning a SearchStrategy
        self.quick = quick
        self.thorough = thorough
        self.enum = enum              # callable(shard, nshards, tier) -> iterator
        self.exhaustive = exhaustive
        self.shards = shards          # force a shard count (e.g. 1 for process-global state)
        self.describe = describe or (lambda case: safe_repr(case))


def safe_repr(x, limit=600):
    try:
        r = repr(x)
    except Exception as e:  # pragma: no cover
        r = "<unreprable %s>" % type(e).__name__
    if len(r) > limit:
        r = r[:limit] + "...(%d chars)" % len(r)
    return r


def h64(obj):
    if not isinstance(obj, (bytes, bytearray)):
        obj = repr(obj).encode("utf-8", "surrogatepass")
    return int.from_bytes(hashlib.blake2b(obj, digest_size=8).digest(), "big")


def shard_seed(base, prop, arm, k):
    return int(hashlib.sha256(("%s:%s:%s:%s" % (base, prop, arm, k)).encode()).hexdigest()[:8], 16)


def load_check(prop):
    setup_paths()
    return importlib.import_module("checks.%s" % prop.lower())


# ----------------------------------------------------------------------------------------------
# worker side

def _case_size(case):
    try:
        return len(pickle.dumps(case, 4))
    except Exception:
        return len(repr(case))


class Collector:
    def __init__(self, max_samples=4):
        self.evaluations = 0
        self.cases = 0
        self.nontrivial = set()
        self.classes = collections.Counter()
        self.samples = {}
        self.failures = {}      # key -> dict(case, msg, count, size, index)
        self.max_samples = max_samples
        self.stuck = False

    def add(self, arm, case, ev):
        self.cases += 1
        self.evaluations += ev.evals
        for c in ev.classes:
            self.classes[c] += 1
        if ev.nontrivial:
            self.nontrivial.add(h64(ev.ident if ev.ident is not None else safe_repr(case, 100000)))
            label = ev.classes[0] if ev.classes else "nontrivial"
            if label not in self.samples and len(self.samples) < self.max_samples:
                self.samples[label] = ev.sample if ev.sample is not None else arm.describe(case)
        for f in ev.failures:
            size = _case_size(case)
            cur = self.failures.get(f.key)
            if cur is None:
                self.failures[f.key] = dict(case=case, msg=f.msg, count=1, size=size, index=self.cases)
            else:
                cur["count"] += 1
                if size < cur["size"]:
                    cur.update(case=case, msg=f.msg, size=size)

    def result(self):
        fails = {}
        for k, v in self.failures.items():
            fails[k] = dict(case=pickle.dumps(v["case"], 4), msg=v["msg"], count=v["count"],
                            size=v["size"], index=v["index"])
        return dict(evaluations=self.evaluations, cases=self.cases, nontrivial=self.nontrivial,
                    classes=dict(self.classes), samples=self.samples, failures=fails)


def _hyp_settings(n, shrink=False):
    from hypothesis import settings, HealthCheck, Phase
    phases = [Phase.generate] + ([Phase.shrink] if shrink else [])
    return settings(max_examples=n, database=None, deadline=None, report_multiple_bugs=False,
                    suppress_health_check=list(HealthCheck), phases=phases, derandomize=False,
                    print_blob=False, verbosity=__import__("hypothesis").Verbosity.quiet)


def run_shard(prop, arm_name, tier, k, nshards, n, seed, journal=None):
    """Executed in a fresh worker process.  journal: path that receives the pickled case BEFORE it is evaluated (used when a
    shard is re-run after its worker process died, to find the case that kills the interpreter)."""
    mod = load_check(prop)
    arm = {a.name: a for a in mod.arms(tier)}[arm_name]
    col = Collector()
    t0 = time.time()
    def one(case):
        if col.stuck:
            return          # a case of this shard did not terminate: the remaining ones are not evaluated (each could take as long)
        if journal:
            with open(journal, "wb") as fh:
                pickle.dump(case, fh, 4)
        ev = evaluate(arm, case)
        col.add(arm, case, ev)
        if any(f.key.startswith(("no-result:cpu-time-limit", "hang:cpu-time")) for f in ev.failures):
            col.stuck = True            # every further case of this shard could take as long (a coverage-guided arm would even breed them)
    if arm.enum is not None:
        for case in arm.enum(k, nshards, tier):
            one(case)
    else:
        from hypothesis import given, seed as hseed
        strat = arm.strategy()

        @hseed(seed)
        @_hyp_settings(n)
        @given(strat)
        def body(case):
            one(case)
        body()
    res = col.result()
    res["wall"] = time.time() - t0
    res["arm"] = arm_name
    res["shard"] = k
    res["seed"] = seed
    return res


def shard_to_file(prop, arm_name, tier, k, nshards, n, seed, outpath, journal):
    """Run one shard with journaling and leave its result in outpath (executed with python -c in a subprocess)."""
    res = run_shard(prop, arm_name, tier, k, nshards, n, seed, journal=journal)
    with open(outpath + ".tmp", "wb") as fh:
        pickle.dump(res, fh, 4)
    os.replace(outpath + ".tmp", outpath)


def rerun_after_crash(prop, tier, task):
    """A worker process died (abort / segmentation fault inside the extension module, os._exit ...).  The shard is run again
    alone in a subprocess that records every case before evaluating it.  -> (result dict or None, harness error or None)"""
    arm, k, ns, per, seed = task
    base = tempfile.mktemp(prefix="verif-crash-", dir="/var/tmp")
    out, journal = base + ".res", base + ".case"
    code = ("import sys; sys.path.insert(0, %r); from vlib import runner; runner.setup_paths(); "
            "runner.shard_to_file(%r, %r, %r, %d, %d, %d, %d, %r, %r)" % (VERIF, prop, arm.name, tier, k, ns, per, seed, out, journal))
    try:
        try:
            p = subprocess.run([sys.executable, "-X", "utf8", "-c", code], stdout=subprocess.DEVNULL, stderr=subprocess.PIPE, timeout=3600)
            rc, err = p.returncode, p.stderr.decode("utf-8", "replace")[-600:]
        except subprocess.TimeoutExpired:
            return None, "arm=%s shard=%d: re-run after a worker crash did not finish" % (arm.name, k)
        if os.path.exists(out):
            return pickle.load(open(out, "rb")), None            # it was another shard's process that died
        if not os.path.exists(journal):
            return None, "arm=%s shard=%d: worker process dies before its first case (exit status %s): %s" % (arm.name, k, rc, err)
        case = pickle.load(open(journal, "rb"))
        sig = "signal %d" % -rc if rc < 0 else "exit status %d" % rc
        key = "interpreter-crashed:%s" % arm.name
        msg = "the interpreter process died (%s) while this case was being evaluated\n%s" % (sig, err[-300:])
        res = dict(evaluations=1, cases=1, nontrivial=set(), classes={"interpreter-crashed": 1}, samples={}, wall=0.0, arm=arm.name, shard=k, seed=seed,
                   failures={key: dict(case=pickle.dumps(case, 4), msg=msg, count=1, size=_case_size(case), index=0)})
        return res, None
    finally:
        for f in (out, out + ".tmp", journal):
            if os.path.exists(f):
                os.remove(f)


def shrink_worker(prop, arm_name, tier, n, seed, key, outpath):
    """Re-run a Hypothesis shard with the predicate 'fails in bucket key', with shrinking.
    Writes the smallest failing case seen so far to outpath (atomically)."""
    mod = load_check(prop)
    arm = {a.name: a for a in mod.arms(tier)}[arm_name]
    from hypothesis import given, seed as hseed
    best = [None]

    class Found(Exception):
        pass

    @hseed(seed)
    @_hyp_settings(n, shrink=True)
    @given(arm.strategy())
    def body(case):
        ev = evaluate(arm, case)
        for f in ev.failures:
            if f.key == key:
                size = _case_size(case)
                if best[0] is None or size < best[0]:
                    best[0] = size
                    tmp = outpath + ".tmp"
                    with open(tmp, "wb") as fh:
                        pickle.dump(dict(case=case, msg=f.msg), fh, 4)
                    os.replace(tmp, outpath)
                raise Found(key)
    try:
        body()
    except Found:
        pass
    except Exception:
        pass


# ----------------------------------------------------------------------------------------------
# parent side

def load_known(prop):
    path = os.path.join(VERIF, "known_findings.jsonl")
    out = []
    if os.path.exists(path):
        for line in open(path, encoding="utf-8"):
            line = line.strip()
            if not line or line.startswith("#"):
                continue
            rec = json.loads(line)
            if prop in (rec.get("property"), *rec.get("properties", [])):
                out.append(rec)
    return out


def _jsonable(x, depth=0):
    if depth > 6:
        return safe_repr(x, 200)
    if isinstance(x, (str, int, bool)) or x is None:
        return x
    if isinstance(x, float):
        return x if x == x and abs(x) != float("inf") else repr(x)
    if isinstance(x, (bytes, bytearray)):
        return {"bytes_b64": base64.b64encode(bytes(x)).decode()}
    if isinstance(x, (list, tuple)):
        return [_jsonable(i, depth + 1) for i in x[:50]]
    if isinstance(x, dict):
        return {str(k): _jsonable(v, depth + 1) for k, v in list(x.items())[:50]}
    return safe_repr(x, 400)


def write_replay(prop, arm_name, tier, key, case, msg, shrunk):
    d = os.path.join(OUT or VERIF, "replays", prop)
    os.makedirs(d, exist_ok=True)
    name = "%s-%016x.json" % (arm_name, h64(key))
    path = os.path.join(d, name)
    rec = dict(property=prop, arm=arm_name, tier=tier, bucket=key, message=msg, shrunk=shrunk,
               case_repr=safe_repr(case, 20000), case_json=_jsonable(case),
               case_pickle_b64=base64.b64encode(pickle.dumps(case, 4)).decode())
    with open(path, "w", encoding="utf-8") as fh:
        json.dump(rec, fh, indent=1, ensure_ascii=True)
    return path


def replay(prop, path):
    mod = load_check(prop)
    rec = json.load(open(path, encoding="utf-8"))
    tier = rec.get("tier", "quick")
    arm = {a.name: a for a in mod.arms(tier)}[rec["arm"]]
    case = pickle.loads(base64.b64decode(rec["case_pickle_b64"]))
    if str(rec.get("bucket", "")).startswith("interpreter-crashed:") and not os.environ.get("VERIF_REPLAY_INNER"):
        # evaluating this case killed the interpreter: replay it in a child process
        p = subprocess.run([sys.executable, "-X", "utf8", os.path.join(VERIF, "run_check.py"), prop, "--replay", path],
                           env=dict(os.environ, VERIF_REPLAY_INNER="1"), stdout=subprocess.PIPE, stderr=subprocess.STDOUT)
        out = p.stdout.decode("utf-8", "replace")
        if p.returncode not in (0, 1):
            print("VIOLATION property=%s replay=%s" % (prop, path))
            print("  bucket=%s the interpreter process died again (%s)" % (rec["bucket"], "signal %d" % -p.returncode if p.returncode < 0 else "exit status %d" % p.returncode))
            return 1
        sys.stdout.write(out)
        return p.returncode
    ev = evaluate(arm, case)
    known = {r["key"] for r in load_known(prop) if r.get("status") == "open"}
    kc = getattr(mod, "known_class", None)
    bad = 0
    for f in ev.failures:
        k = kc(arm.name, case, f.key) if kc else None
        if k in known:
            print("KNOWN-FINDING: property=%s %s" % (prop, k))
            continue
        print("VIOLATION property=%s replay=%s" % (prop, path))
        print("  bucket=%s %s" % (f.key, f.msg))
        bad += 1
    if not ev.failures:
        print("replay %s: property holds on this case" % path)
    return 1 if bad else 0


def run_regress(mod, prop, tier, journal=None):
    """Seconds-long replay tier: committed saved inputs under regress/<ID>/*.json."""
    d = os.path.join(VERIF, "regress", prop)
    out = []   # (path, arm, case, failures)
    n = 0
    if not os.path.isdir(d):
        return out, n
    arms = {a.name: a for a in mod.arms(tier)}
    for name in sorted(os.listdir(d)):
        if not name.endswith(".json"):
            continue
        rec = json.load(open(os.path.join(d, name), encoding="utf-8"))
        arm = arms.get(rec["arm"])
        if arm is None:
            continue
        case = pickle.loads(base64.b64decode(rec["case_pickle_b64"]))
        if journal:
            with open(journal, "w") as fh:
                fh.write(os.path.join(d, name))
        ev = evaluate(arm, case)
        n += 1
        out.append((os.path.join(d, name), arm, case, ev))
    return out, n


def regress_and_pinned(prop, tier, journal):
    """The replay tier and the pinned inputs of the known findings, executed in a child process (so that an input that kills
    the interpreter is reported instead of taking the run down).  Everything returned is picklable."""
    mod = load_check(prop)
    if os.environ.get("VERIF_NO_REGRESS"):      # sensitivity experiments only (what does the search find without the pinned inputs?)
        reg, nreg = [], 0
    else:
        reg, nreg = run_regress(mod, prop, tier, journal)
    out = [(path, arm.name, pickle.dumps(case, 4), [(f.key, f.msg) for f in ev.failures], ev.evals) for path, arm, case, ev in reg]
    with open(journal, "w") as fh:
        fh.write("pinned inputs of the known findings")
    pinned = getattr(mod, "pinned_known", None)
    pres = {}
    for rec in load_known(prop):
        if rec.get("status") != "open":
            continue
        key = rec["key"]
        if pinned is None:
            pres[key] = True
            continue
        try:
            pres[key] = bool(pinned(key, rec))
        except Exception as e:
            pres[key] = "error: %s" % safe_repr(e)
    return out, nreg, pres


def main(prop, tier, replay_path=None, jobs=None):
    setup_paths()
    t0 = time.time()
    if replay_path:
        return replay(prop, replay_path)
    base_seed = int(os.environ.get("VERIF_SEED", "1") or "1")
    os.environ.setdefault("PYTHONHASHSEED", "0")
    mod = load_check(prop)
    arms = mod.arms(tier)
    scale = float(os.environ.get("VERIF_SCALE", "1") or "1")   # sensitivity screening only; registered commands never set it
    only = [x for x in os.environ.get("VERIF_ONLY_ARMS", "").split(",") if x]      # sensitivity experiments only, never set by registered commands
    all_arms = arms
    if only:
        arms = [a for a in arms if a.name in only]
    if scale != 1:
        for a in arms:
            a.quick = max(20, int(a.quick * scale)) if a.quick > 0 else a.quick
            a.thorough = max(20, int(a.thorough * scale)) if a.thorough > 0 else a.thorough
    jobs = jobs or int(os.environ.get("VERIF_JOBS", "16"))
    import concurrent.futures as cf
    from concurrent.futures.process import BrokenProcessPool
    import multiprocessing as mp
    ctx = mp.get_context("spawn")
    tasks = []
    for arm in arms:
        n = arm.thorough if tier == "thorough" else arm.quick
        if arm.enum is not None:
            ns = arm.shards or jobs
            for k in range(ns):
                tasks.append((arm, k, ns, 0))
        else:
            if n <= 0:
                continue
            ns = arm.shards or max(1, min(jobs, n // 20 or 1))
            per = (n + ns - 1) // ns
            for k in range(ns):
                tasks.append((arm, k, ns, per))
    results = []
    harness_errors = []
    broken = []
    watchdog = float(os.environ.get("VERIF_WATCHDOG", "3600" if tier == "quick" else "43200"))
    with cf.ProcessPoolExecutor(max_workers=jobs, mp_context=ctx) as ex:
        futs = {}
        for arm, k, ns, per in tasks:
            s = shard_seed(base_seed, prop, arm.name, k)
            fut = ex.submit(run_shard, prop, arm.name, tier, k, ns, per, s)
            futs[fut] = (arm, k, ns, per, s)
        try:
            for fut in cf.as_completed(futs, timeout=watchdog):
                arm, k, ns, per, s = futs[fut]
                try:
                    results.append(fut.result())
                    if os.environ.get("VERIF_DEBUG"):
                        print("debug: %.1fs arm=%s shard=%d wall=%.1f" % (time.time() - t0, arm.name, k, results[-1]["wall"]), file=sys.stderr)
                except BrokenProcessPool:
                    broken.append((arm, k, ns, per, s))
                except Exception as e:
                    harness_errors.append("arm=%s shard=%d seed=%d: %s\n%s" % (
                        arm.name, k, s, safe_repr(e), "".join(traceback.format_exception(e))[-3000:]))
        except cf.TimeoutError:
            harness_errors.append("watchdog: shards still running after %.0fs" % watchdog)
            for f in futs:
                f.cancel()
            for p in list(getattr(ex, "_processes", {}).values()):
                p.kill()

    if broken:
        # a worker process died and took the pool with it: every unfinished shard is run again on its own
        from concurrent.futures import ThreadPoolExecutor
        with ThreadPoolExecutor(max_workers=jobs) as tp:
            for res, herr in tp.map(lambda t: rerun_after_crash(prop, tier, t), broken):
                if res is not None:
                    results.append(res)
                if herr:
                    harness_errors.append(herr)

    # merge
    evaluations = 0
    cases = 0
    nontrivial = set()
    classes = collections.Counter()
    samples = []
    per_arm = collections.OrderedDict()
    failures = {}       # (arm, key) -> best
    for r in sorted(results, key=lambda r: (r["arm"], r["shard"])):
        evaluations += r["evaluations"]
        cases += r["cases"]
        nontrivial |= r["nontrivial"]
        classes.update(r["classes"])
        pa = per_arm.setdefault(r["arm"], dict(cases=0, evaluations=0, wall_s=0.0))
        pa["cases"] += r["cases"]
        pa["evaluations"] += r["evaluations"]
        pa["wall_s"] = round(max(pa["wall_s"], r["wall"]), 2)
        for label, s in r["samples"].items():
            if len(samples) < 12 and not any(x.get("class") == label and x.get("arm") == r["arm"] for x in samples):
                samples.append({"arm": r["arm"], "class": label, "case": _jsonable(s)})
        for key, f in r["failures"].items():
            cur = failures.get((r["arm"], key))
            f = dict(f, shard=r["shard"], seed=r["seed"])
            if cur is None:
                failures[(r["arm"], key)] = f
            else:
                total = cur["count"] + f["count"]
                if f["size"] < cur["size"]:
                    failures[(r["arm"], key)] = f
                failures[(r["arm"], key)]["count"] = total

    # regress tier
    armmap = {a.name: a for a in all_arms}
    regress_fail = []
    nreg = 0
    pinned_results = None
    journal = tempfile.mktemp(prefix="verif-regress-", dir="/var/tmp")
    try:
        with cf.ProcessPoolExecutor(max_workers=1, mp_context=ctx) as ex1:
            reg, nreg, pinned_results = ex1.submit(regress_and_pinned, prop, tier, journal).result()
        for path, arm_name, case_p, fails, evals in reg:
            evaluations += evals
            for fkey, fmsg in fails:
                regress_fail.append((path, armmap[arm_name], pickle.loads(case_p), Failure(fkey, fmsg)))
    except BrokenProcessPool:
        where = open(journal).read() if os.path.exists(journal) else ""
        if where.endswith(".json") and os.path.exists(where):
            rec0 = json.load(open(where, encoding="utf-8"))
            regress_fail.append((where, armmap[rec0["arm"]], pickle.loads(base64.b64decode(rec0["case_pickle_b64"])),
                                 Failure("interpreter-crashed:%s" % rec0["arm"], "the interpreter process died while this saved input was being replayed")))
        else:
            harness_errors.append("the child process replaying the saved inputs died (%s)" % (where or "before the first input"))
    finally:
        if os.path.exists(journal):
            os.remove(journal)

    known = load_known(prop)
    open_keys = {r["key"]: r for r in known if r.get("status") == "open"}
    kc = getattr(mod, "known_class", None)
    excluded_known = collections.Counter()
    violations = []
    for (arm_name, key), f in sorted(failures.items()):
        case = pickle.loads(f["case"])
        k = kc(arm_name, case, key) if kc else None
        if k is not None and k in open_keys:
            excluded_known[k] += f["count"]
            continue
        violations.append((arm_name, key, f, case))
    for path, arm, case, f in regress_fail:
        k = kc(arm.name, case, f.key) if kc else None
        if k is not None and k in open_keys:
            excluded_known[k] += 1
            continue
        violations.append((arm.name, f.key, dict(msg=f.msg, count=1, regress=path), case))

    # known findings: re-run pinned inputs
    known_lines = []
    pinned = getattr(mod, "pinned_known", None)
    for key, rec in open_keys.items():
        still = True
        if pinned_results is not None:
            still = pinned_results.get(key, True)
            if isinstance(still, str):
                harness_errors.append("pinned_known(%s): %s" % (key, still))
                still = True
        else:
            still = True        # the child process died before the pinned inputs were run (reported above)
        if still:
            known_lines.append("KNOWN-FINDING: property=%s %s: %s" % (prop, key, rec.get("what", "")))
        else:
            known_lines.append("NOTE: known finding %s no longer reproduces on its pinned input" % key)

    # shrink + replay files
    viol_out = []
    shrink_budget = float(os.environ.get("VERIF_SHRINK_S", "25" if tier == "quick" else "120"))
    for arm_name, key, f, case in violations:
        arm = armmap[arm_name]
        shrunk = False
        msg = f["msg"]
        if "regress" in f:
            path = f["regress"]
        else:
            if arm.enum is None and shrink_budget > 0 and len(viol_out) < 6:
                n = arm.thorough if tier == "thorough" else arm.quick
                ns = arm.shards or max(1, min(jobs, n // 20 or 1))
                per = (n + ns - 1) // ns
                out = tempfile.mktemp(prefix="verif-shrink-", dir="/var/tmp")
                code = ("import sys; sys.path.insert(0, %r); from vlib import runner; runner.setup_paths(); "
                        "runner.shrink_worker(%r, %r, %r, %d, %d, %r, %r)" % (
                            VERIF, prop, arm_name, tier, min(per, f["index"] + 5), f["seed"], key, out))
                try:
                    subprocess.run([sys.executable, "-X", "utf8", "-c", code], timeout=shrink_budget,
                                   stdout=subprocess.DEVNULL, stderr=subprocess.DEVNULL)
                except subprocess.TimeoutExpired:
                    pass
                if os.path.exists(out):
                    try:
                        rec = pickle.load(open(out, "rb"))
                        if _case_size(rec["case"]) <= f["size"]:
                            case, msg, shrunk = rec["case"], rec["msg"], True
                    except Exception:
                        pass
                    for p in (out, out + ".tmp"):
                        if os.path.exists(p):
                            os.remove(p)
            path = write_replay(prop, arm_name, tier, key, case, msg, shrunk)
        viol_out.append(dict(arm=arm_name, bucket=key, count=f["count"], message=msg, replay=path,
                             case=safe_repr(case, 1500)))

    # required classes
    req = getattr(mod, "REQUIRED_CLASSES", {})
    req = req.get(tier, req.get("quick", ())) if isinstance(req, dict) else req
    for c in req if (scale == 1 and not only) else ():
        if classes.get(c, 0) == 0 and not harness_errors:
            harness_errors.append("required class %r was never generated (generator defect)" % c)

    # classes that must be reached at least n times in the quick tier (a generator whose interesting class dwindles is a defect)
    if tier == "quick" and scale == 1 and not only:
        for c, n in getattr(mod, "MIN_CLASS_COUNTS", {}).items():
            if classes.get(c, 0) < n and not harness_errors:
                harness_errors.append("class %r was generated %d times, at least %d are required (generator defect)" % (c, classes.get(c, 0), n))

    wall = time.time() - t0
    evidence = dict(
        property_id=prop, tier=tier, seed=base_seed, level=getattr(mod, "LEVEL", "exploration"),
        coverage=dict(
            evaluations=int(evaluations), cases=int(cases), distinct_nontrivial=len(nontrivial),
            rule=getattr(mod, "RULE", ""), samples=samples, classes=dict(sorted(classes.items())),
            per_arm=per_arm, exhaustive=bool(arms) and all(a.exhaustive for a in arms),
            exhaustive_arms=[a.name for a in arms if a.exhaustive],
            regress_inputs_replayed=nreg, excluded_known=dict(excluded_known),
            c_backend=c_backend_state()),
        assumptions=list(getattr(mod, "ASSUMPTIONS", [])),
        wall_s=round(wall, 2), violations=len(viol_out),
        known_findings=[l for l in known_lines if l.startswith("KNOWN")],
        violation_details=viol_out[:20], harness_errors=harness_errors[:10])
    os.makedirs(os.path.join(OUT or VERIF, "evidence"), exist_ok=True)
    with open(os.path.join(OUT or VERIF, "evidence", "%s.json" % prop), "w", encoding="utf-8") as fh:
        json.dump(evidence, fh, indent=1, ensure_ascii=True, default=safe_repr)

    for l in known_lines:
        print(l)
    print("%s tier=%s seed=%d cases=%d evaluations=%d distinct_nontrivial=%d wall=%.1fs" % (
        prop, tier, base_seed, cases, evaluations, len(nontrivial), wall))
    top = ", ".join("%s=%d" % kv for kv in sorted(classes.items())[:40])
    print("classes: " + top)
    if excluded_known:
        print("excluded_known: %s" % dict(excluded_known))
    for v in viol_out:
        print("VIOLATION property=%s replay=%s" % (prop, v["replay"]))
        print("  arm=%s bucket=%s count=%d\n  %s\n  case=%s" % (v["arm"], v["bucket"], v["count"],
                                                               v["message"][:600], v["case"][:600]))
    if harness_errors:
        for e in harness_errors:
            print("HARNESS-ERROR: " + e, file=sys.stderr)
    if viol_out:
        return 1
    if harness_errors:
        return 2
    return 0


def c_backend_state():
    try:
        import yaml
        return "available" if yaml.__with_libyaml__ else "unavailable"
    except Exception:
        return "unavailable"


def save_regress(prop, arm_name, name, case, note=""):
    """Used by tools/mkregress.py to pin a saved input into the committed replay tier."""
    d = os.path.join(VERIF, "regress", prop)
    os.makedirs(d, exist_ok=True)
    path = os.path.join(d, name + ".json")
    rec = dict(property=prop, arm=arm_name, tier="quick", note=note, case_repr=safe_repr(case, 5000),
               case_pickle_b64=base64.b64encode(pickle.dumps(case, 4)).decode())
    with open(path, "w", encoding="utf-8") as fh:
        json.dump(rec, fh, indent=1, ensure_ascii=True)
    return path
