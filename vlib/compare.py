"""Type-strict graph bisimulation for the safe universe (and, with state extraction, objects)."""
import datetime
import math


class Mismatch(Exception):
    pass


def scalar_equal(a, b):
    if type(a) is not type(b):
        return False
    if isinstance(a, float):
        if a != a or b != b:
            return a != a and b != b
        return a == b and math.copysign(1.0, a) == math.copysign(1.0, b)
    if isinstance(a, datetime.datetime):
        if (a.tzinfo is None) != (b.tzinfo is None):
            return False
        if a.tzinfo is not None:
            return a == b and a.utcoffset() == b.utcoffset()
        return a == b
    if isinstance(a, complex):
        return scalar_equal(a.real, b.real) and scalar_equal(a.imag, b.imag)
    return a == b


def canon_key(k):
    """Total, type-strict canonical form of a hashable safe key (for matching dict keys)."""
    if isinstance(k, float):
        if k != k:
            return ("float", "nan")
        return ("float", k.hex())
    if isinstance(k, datetime.datetime):
        return ("datetime", k.replace(tzinfo=None).isoformat(), None if k.tzinfo is None else k.utcoffset())
    if isinstance(k, tuple):
        return ("tuple", tuple(canon_key(i) for i in k))
    if isinstance(k, frozenset):
        return ("frozenset", frozenset(canon_key(i) for i in k))
    return (type(k).__name__, k)


CONTAINERS = (list, dict, set)


def bisimilar(a, b, key_order=True, path="$"):
    """Return None when a and b are bisimilar, else a short description of the first difference.
    Checks: exact types, scalar equality (NaN-aware, sign of zero, tz offset), dict key order
    when key_order, and that the sharing partition of container positions is the same."""
    amap, bmap = {}, {}     # id -> class number

    def go(x, y, path):
        if type(x) is not type(y):
            return "%s: type: %s != %s" % (path, type(x).__name__, type(y).__name__)
        if isinstance(x, CONTAINERS):
            ix, iy = id(x), id(y)
            if ix in amap or iy in bmap:
                if amap.get(ix) != bmap.get(iy):
                    return "%s: sharing: structure differs" % path
                return None
            n = len(amap)
            amap[ix] = n
            bmap[iy] = n
            if isinstance(x, list):
                if len(x) != len(y):
                    return "%s: list-length: %d != %d" % (path, len(x), len(y))
                for i, (p, q) in enumerate(zip(x, y)):
                    r = go(p, q, "%s[%d]" % (path, i))
                    if r:
                        return r
                return None
            if isinstance(x, dict):
                if len(x) != len(y):
                    return "%s: dict-size: %d != %d" % (path, len(x), len(y))
                ck_x = [canon_key(k) for k in x]
                ck_y = [canon_key(k) for k in y]
                if key_order:
                    if ck_x != ck_y:
                        return "%s: key-order: %.200r vs %.200r" % (path, list(x)[:6], list(y)[:6])
                    for (kx, vx), (ky, vy) in zip(x.items(), y.items()):
                        r = go(vx, vy, "%s[%.40r]" % (path, kx))
                        if r:
                            return r
                    return None
                my = dict(zip(ck_y, y.values()))
                if set(ck_x) != set(my):
                    return "%s: key-set: %.200r vs %.200r" % (path, list(x)[:6], list(y)[:6])
                for ck, (kx, vx) in zip(ck_x, x.items()):
                    r = go(vx, my[ck], "%s[%.40r]" % (path, kx))
                    if r:
                        return r
                return None
            # set
            sx = {canon_key(k) for k in x}
            sy = {canon_key(k) for k in y}
            if sx != sy:
                return "%s: set-members: %.200r vs %.200r" % (path, sorted(map(repr, x))[:6], sorted(map(repr, y))[:6])
            return None
        if isinstance(x, tuple):
            if len(x) != len(y):
                return "%s: tuple-length:" % path
            for i, (p, q) in enumerate(zip(x, y)):
                r = go(p, q, "%s(%d)" % (path, i))
                if r:
                    return r
            return None
        if not scalar_equal(x, y):
            return "%s: scalar-%s: %.120r != %.120r" % (path, type(x).__name__, x, y)
        return None
    return go(a, b, path)


SAFE_TYPES = (type(None), bool, int, float, str, bytes, datetime.date, datetime.datetime, list, dict, set)


def walk_types(obj, allowed, allow_pair_tuples=True):
    """Return a description of the first object reachable from obj whose exact type is not allowed
    (a 2-tuple directly inside a list is allowed when allow_pair_tuples), else None."""
    seen = set()
    stack = [(obj, False, "$")]
    while stack:
        x, in_list, path = stack.pop()
        t = type(x)
        if t is tuple and allow_pair_tuples and in_list and len(x) == 2:
            stack.append((x[0], False, path + "(0)"))
            stack.append((x[1], False, path + "(1)"))
            continue
        if t not in allowed:
            return "%s: %s" % (path, t.__module__ + "." + t.__qualname__)
        if t in (list, dict, set):
            if id(x) in seen:
                continue
            seen.add(id(x))
            if t is list:
                for i, c in enumerate(x):
                    stack.append((c, True, "%s[%d]" % (path, i)))
            elif t is dict:
                for k, v in x.items():
                    stack.append((k, False, path + "{key}"))
                    stack.append((v, False, path + "{val}"))
            else:
                for k in x:
                    stack.append((k, False, path + "{member}"))
    return None
