"""Independent recursive-descent parser of the *canonical form* of YAML (C15 clause 7).

The canonical form (what `canonical=True` promises) is:

    stream     ::= document*
    document   ::= directive* '---' node '...'?
    directive  ::= '%YAML' major '.' minor | '%TAG' handle prefix
    node       ::= '*' anchor-name
                 | properties? content
    properties ::= ('&' anchor-name)? tag?  |  tag ('&' anchor-name)?
    content    ::= double-quoted-scalar
                 | '[' (node ',')* node? ']'
                 | '{' ('?' node ':' node ',')* ('?' node ':' node)? '}'
    tag        ::= '!<' uri '>' | '!' | '!' word '!' suffix | '!!' suffix | '!' suffix

Tokens are separated by spaces and CR/LF breaks only.  Nothing here is shared with the library or with the test
suite's canonical.py; it is written from the description above.  parse(text) returns a list of tuples

    ("stream-start",) ("document-start", version, tags) ("document-end", explicit)
    ("scalar", anchor, tag, value) ("seq-start", anchor, tag) ("seq-end",) ("map-start", anchor, tag) ("map-end",)
    ("alias", name) ("stream-end",)

and raises CanonicalError for anything outside the grammar.
"""

SIMPLE_ESC = {"0": "\0", "a": "\x07", "b": "\x08", "t": "\t", "\t": "\t", "n": "\n", "v": "\x0b", "f": "\x0c", "r": "\r",
              "e": "\x1b", " ": " ", '"': '"', "\\": "\\", "/": "/", "N": "\x85", "_": "\xa0", "L": "\u2028", "P": "\u2029"}
HEX_ESC = {"x": 2, "u": 4, "U": 8}
BREAKS = "\r\n"
URI_CH = set("ABCDEFGHIJKLMNOPQRSTUVWXYZabcdefghijklmnopqrstuvwxyz0123456789-;/?:@&=+$,_.!~*'()[]%")
WORD_CH = set("ABCDEFGHIJKLMNOPQRSTUVWXYZabcdefghijklmnopqrstuvwxyz0123456789-_")


class CanonicalError(Exception):
    pass


class _P:
    def __init__(self, text):
        if text[:1] == "\ufeff":
            text = text[1:]
        self.t = text
        self.i = 0
        self.out = []

    def fail(self, what):
        raise CanonicalError("%s at offset %d: %r" % (what, self.i, self.t[self.i:self.i + 30]))

    def peek(self, k=0):
        j = self.i + k
        return self.t[j] if j < len(self.t) else ""

    def at_line_start(self):
        return self.i == 0 or self.t[self.i - 1] in BREAKS

    def skip_ws(self):
        while self.peek() and self.peek() in " \r\n":
            self.i += 1

    def word(self, allowed):
        j = self.i
        while self.peek() and self.peek() in allowed:
            self.i += 1
        return self.t[j:self.i]

    # ---------------------------------------------------------------------------------------
    def stream(self):
        self.out.append(("stream-start",))
        self.skip_ws()
        while self.peek():
            self.document()
            self.skip_ws()
        self.out.append(("stream-end",))
        return self.out

    def uri_unescape(self, s):
        if "%" not in s:
            return s
        out = bytearray()
        k = 0
        while k < len(s):
            if s[k] == "%":
                h = s[k + 1:k + 3]
                if len(h) != 2 or any(c not in "0123456789abcdefABCDEF" for c in h):
                    self.fail("bad %-escape in tag")
                out.append(int(h, 16))
                k += 3
            else:
                out += s[k].encode("utf-8")
                k += 1
        try:
            return out.decode("utf-8")
        except UnicodeDecodeError:
            self.fail("%-escapes are not UTF-8")

    def document(self):
        version = None
        tags = {}
        while self.peek() == "%":
            if not self.at_line_start():
                self.fail("directive not at line start")
            self.i += 1
            name = self.word(WORD_CH)
            if name == "YAML":
                self.spaces()
                a = self.word(set("0123456789"))
                if self.peek() != "." or not a:
                    self.fail("bad %YAML")
                self.i += 1
                b = self.word(set("0123456789"))
                if not b or version is not None:
                    self.fail("bad or duplicate %YAML")
                version = (int(a), int(b))
            elif name == "TAG":
                self.spaces()
                if self.peek() != "!":
                    self.fail("bad %TAG handle")
                self.i += 1
                w = self.word(WORD_CH)
                if w:
                    if self.peek() != "!":
                        self.fail("bad %TAG handle")
                    self.i += 1
                    handle = "!" + w + "!"
                elif self.peek() == "!":
                    self.i += 1
                    handle = "!!"
                else:
                    handle = "!"
                self.spaces()
                prefix = self.word(URI_CH)
                if not prefix or handle in tags:
                    self.fail("bad or duplicate %TAG")
                tags[handle] = self.uri_unescape(prefix)
            else:
                self.fail("unknown directive")
            self.eol()
            self.skip_ws()
        if not (self.t.startswith("---", self.i) and self.at_line_start()):
            self.fail("canonical document must start with '---'")
        self.i += 3
        if self.peek() and self.peek() not in " \r\n":
            self.fail("'---' not followed by a separator")
        self.handles = {"!": "!", "!!": "tag:yaml.org,2002:"}
        self.handles.update(tags)
        self.out.append(("document-start", version, tags or None))
        self.skip_ws()
        self.node()
        self.skip_ws()
        explicit = False
        if self.t.startswith("...", self.i) and self.at_line_start():
            self.i += 3
            explicit = True
            if self.peek() and self.peek() not in " \r\n":
                self.fail("'...' not followed by a separator")
        self.out.append(("document-end", explicit))

    def spaces(self):
        if self.peek() != " ":
            self.fail("expected a space")
        while self.peek() == " ":
            self.i += 1

    def eol(self):
        while self.peek() == " ":
            self.i += 1
        if self.peek() and self.peek() not in BREAKS:
            self.fail("expected end of line")

    def anchor_name(self):
        name = self.word(WORD_CH)
        if not name:
            self.fail("empty anchor/alias name")
        return name

    def tag(self):
        assert self.peek() == "!"
        self.i += 1
        if self.peek() == "<":
            self.i += 1
            uri = self.word(URI_CH)
            if self.peek() != ">" or not uri:
                self.fail("bad verbatim tag")
            self.i += 1
            return self.uri_unescape(uri)
        rest = self.word(URI_CH - set(",[]"))
        if not rest:
            return "!"
        if rest[0] == "!":
            handle, suffix = "!!", rest[1:]
        else:
            k = rest.find("!")
            if k >= 0 and all(c in WORD_CH for c in rest[:k]):
                handle, suffix = "!" + rest[:k + 1], rest[k + 1:]
            else:
                handle, suffix = "!", rest
        if handle not in self.handles:
            self.fail("undefined tag handle %r" % handle)
        if handle != "!" and not suffix:
            self.fail("empty tag suffix")
        return self.handles[handle] + self.uri_unescape(suffix)

    def node(self):
        c = self.peek()
        if c == "*":
            self.i += 1
            self.out.append(("alias", self.anchor_name()))
            return
        anchor = tag = None
        while c in ("&", "!"):
            if c == "&":
                if anchor is not None:
                    self.fail("two anchors")
                self.i += 1
                anchor = self.anchor_name()
            else:
                if tag is not None:
                    self.fail("two tags")
                tag = self.tag()
            if self.peek() and self.peek() not in " \r\n":
                self.fail("property not followed by a separator")
            self.skip_ws()
            c = self.peek()
        if c == '"':
            self.out.append(("scalar", anchor, tag, self.double_quoted()))
        elif c == "[":
            self.i += 1
            self.out.append(("seq-start", anchor, tag))
            self.skip_ws()
            while self.peek() != "]":
                self.node()
                self.skip_ws()
                if self.peek() == ",":
                    self.i += 1
                    self.skip_ws()
                elif self.peek() != "]":
                    self.fail("expected ',' or ']'")
            self.i += 1
            self.out.append(("seq-end",))
        elif c == "{":
            self.i += 1
            self.out.append(("map-start", anchor, tag))
            self.skip_ws()
            while self.peek() != "}":
                if self.peek() != "?":
                    self.fail("canonical mapping entries start with '?'")
                self.i += 1
                if self.peek() not in " \r\n":
                    self.fail("'?' not followed by a separator")
                self.skip_ws()
                self.node()
                self.skip_ws()
                if self.peek() != ":":
                    self.fail("expected ':'")
                self.i += 1
                if self.peek() not in " \r\n":
                    self.fail("':' not followed by a separator")
                self.skip_ws()
                self.node()
                self.skip_ws()
                if self.peek() == ",":
                    self.i += 1
                    self.skip_ws()
                elif self.peek() != "}":
                    self.fail("expected ',' or '}'")
            self.i += 1
            self.out.append(("map-end",))
        else:
            self.fail("canonical content must be a double-quoted scalar, '[' or '{'")

    def double_quoted(self):
        assert self.peek() == '"'
        self.i += 1
        out = []
        while True:
            c = self.peek()
            if c == "":
                self.fail("unterminated double-quoted scalar")
            if c == '"':
                self.i += 1
                return "".join(out)
            if c == "\\":
                e = self.peek(1)
                if e in SIMPLE_ESC:
                    out.append(SIMPLE_ESC[e])
                    self.i += 2
                elif e in HEX_ESC:
                    n = HEX_ESC[e]
                    h = self.t[self.i + 2:self.i + 2 + n]
                    if len(h) != n or any(ch not in "0123456789abcdefABCDEF" for ch in h):
                        self.fail("bad hex escape")
                    v = int(h, 16)
                    if v > 0x10FFFF:
                        self.fail("escape beyond U+10FFFF")
                    out.append(chr(v))
                    self.i += 2 + n
                elif e and e in BREAKS:
                    # escaped line break: the break and the indentation of the next line disappear
                    self.i += 1
                    self.take_break()
                    while self.peek() in (" ", "\t") and self.peek():
                        self.i += 1
                else:
                    self.fail("unknown escape")
            elif c in BREAKS or c in " \t":
                # flow folding: trailing white space before a break is dropped, one break -> space, k+1 breaks -> k LF
                j = self.i
                while self.peek() and self.peek() in " \t":
                    self.i += 1
                if not self.peek() or self.peek() not in BREAKS:
                    out.append(self.t[j:self.i])
                    continue
                nb = 0
                while self.peek() and self.peek() in BREAKS:
                    self.take_break()
                    nb += 1
                    while self.peek() and self.peek() in " \t":
                        self.i += 1
                out.append(" " if nb == 1 else "\n" * (nb - 1))
            else:
                out.append(c)
                self.i += 1

    def take_break(self):
        if self.t.startswith("\r\n", self.i):
            self.i += 2
        else:
            self.i += 1


def parse(text):
    return _P(text).stream()


def from_yaml_events(events):
    """The same tuple form from the library's event objects (for comparison)."""
    out = []
    for e in events:
        n = type(e).__name__
        if n == "StreamStartEvent":
            out.append(("stream-start",))
        elif n == "StreamEndEvent":
            out.append(("stream-end",))
        elif n == "DocumentStartEvent":
            out.append(("document-start", tuple(e.version) if e.version else None, dict(e.tags) if e.tags else None))
        elif n == "DocumentEndEvent":
            out.append(("document-end", bool(e.explicit)))
        elif n == "AliasEvent":
            out.append(("alias", e.anchor))
        elif n == "ScalarEvent":
            out.append(("scalar", e.anchor, e.tag, e.value))
        elif n == "SequenceStartEvent":
            out.append(("seq-start", e.anchor, e.tag))
        elif n == "SequenceEndEvent":
            out.append(("seq-end",))
        elif n == "MappingStartEvent":
            out.append(("map-start", e.anchor, e.tag))
        elif n == "MappingEndEvent":
            out.append(("map-end",))
        else:
            raise AssertionError(n)
    return out
