"""Reference YAML 1.1 plain-scalar typing and evaluation (C08), hand-written at character level (no `re`,
no first-character index), following the YAML 1.1 type repository as PyYAML documents it:

  bool      ::= yes|Yes|YES|no|No|NO|true|True|TRUE|false|False|FALSE|on|On|ON|off|Off|OFF      (single y/n are NOT bool)
  null      ::= ~ | null | Null | NULL | (empty)
  int       ::= [-+]? ( 0b[01_]+ | 0[0-7_]+ | 0 | [1-9][0-9_]* | 0x[0-9a-fA-F_]+ | [1-9][0-9_]*(:[0-5]?[0-9])+ )
  float     ::= [-+]?[0-9][0-9_]*\\.[0-9_]*([eE][-+][0-9]+)?  |  \\.[0-9][0-9_]*([eE][-+][0-9]+)?
              | [-+]?[0-9][0-9_]*(:[0-5]?[0-9])+\\.[0-9_]*  |  [-+]?\\.(inf|Inf|INF)  |  \\.(nan|NaN|NAN)
  timestamp ::= YYYY-MM-DD | YYYY-M?M-D?D ([Tt]|[ \\t]+) H?H:MM:SS(\\.[0-9]*)? ([ \\t]*(Z|[-+]H?H(:MM)?))?
  merge     ::= <<        value ::= =
Resolution order (first match wins): bool, float, int, merge, null, timestamp, value; otherwise str.
"""
import datetime

INVALID = object()          # text has the type's form but no value (digits missing, field out of range)
UNDEFINED = object()        # merge / value outside a mapping key: no value is defined

BOOLS = {"yes": True, "no": False, "true": True, "false": False, "on": True, "off": False}
DIGITS = "0123456789"


def _cased(text, word):
    return text in (word, word.capitalize(), word.upper())


def is_bool(t):
    return any(_cased(t, w) for w in BOOLS)


def is_null(t):
    return t == "" or t == "~" or _cased(t, "null")


def _strip_sign(t):
    if t[:1] in ("-", "+"):
        return t[0], t[1:]
    return "", t


def _all_in(s, alphabet):
    return all(c in alphabet for c in s)


def _sexagesimal_tail(parts):
    # each part: one digit, or two digits with the first in 0..5
    for p in parts:
        if len(p) == 1 and p in DIGITS:
            continue
        if len(p) == 2 and p[0] in "012345" and p[1] in DIGITS:
            continue
        return False
    return True


def is_int(t):
    _, b = _strip_sign(t)
    if b == "":
        return False
    if b.startswith("0b"):
        return len(b) > 2 and _all_in(b[2:], "01_")
    if b.startswith("0x"):
        return len(b) > 2 and _all_in(b[2:], "0123456789abcdefABCDEF_")
    if b == "0":
        return True
    if b[0] == "0":
        return _all_in(b[1:], "01234567_")
    if b[0] in "123456789":
        if ":" in b:
            parts = b.split(":")
            return _all_in(parts[0][1:], DIGITS + "_") and len(parts) > 1 and _sexagesimal_tail(parts[1:])
        return _all_in(b[1:], DIGITS + "_")
    return False


def _exponent_ok(e):
    # e is the text after the mantissa: '' or [eE][-+][0-9]+
    if e == "":
        return True
    return len(e) >= 3 and e[0] in "eE" and e[1] in "-+" and _all_in(e[2:], DIGITS)


def _split_exponent(s):
    for i, c in enumerate(s):
        if c in "eE":
            return s[:i], s[i:]
    return s, ""


def is_float(t):
    sign, b = _strip_sign(t)
    if b in (".inf", ".Inf", ".INF"):
        return True
    if t in (".nan", ".NaN", ".NAN"):
        return True
    if b == "":
        return False
    # \.[0-9][0-9_]*(exp)?      (no sign allowed)
    if t[0] == ".":
        m, e = _split_exponent(t[1:])
        return len(m) >= 1 and m[0] in DIGITS and _all_in(m[1:], DIGITS + "_") and _exponent_ok(e)
    if b[0] not in DIGITS:
        return False
    if "." not in b:
        return False
    head, tail = b.split(".", 1)
    if ":" in head:
        parts = head.split(":")
        if not (parts[0] and parts[0][0] in DIGITS and _all_in(parts[0][1:], DIGITS + "_")):
            return False
        return _sexagesimal_tail(parts[1:]) and _all_in(tail, DIGITS + "_")
    if not _all_in(head[1:], DIGITS + "_"):
        return False
    m, e = _split_exponent(tail)
    return _all_in(m, DIGITS + "_") and _exponent_ok(e)


def _parse_timestamp(t):
    """-> None when t is not of timestamp form, else a dict of the textual fields."""
    n = len(t)
    if n < 8 or not (_all_in(t[:4], DIGITS) and t[4] == "-"):
        return None
    i = 5
    j = i
    while j < n and t[j] in DIGITS and j - i < 2:
        j += 1
    if j == i or j >= n or t[j] != "-":
        return None
    month = t[i:j]
    i = j + 1
    j = i
    while j < n and t[j] in DIGITS and j - i < 2:
        j += 1
    if j == i:
        return None
    day = t[i:j]
    f = {"year": t[:4], "month": month, "day": day, "hour": None}
    if j == n:
        # the date-only form requires two-digit month and day
        return f if (len(month) == 2 and len(day) == 2) else None
    i = j
    if t[i] in "Tt":
        i += 1
    elif t[i] in " \t":
        while i < n and t[i] in " \t":
            i += 1
    else:
        return None
    j = i
    while j < n and t[j] in DIGITS and j - i < 2:
        j += 1
    if j == i or j >= n or t[j] != ":":
        return None
    f["hour"] = t[i:j]
    i = j + 1
    if not (i + 2 <= n and _all_in(t[i:i + 2], DIGITS) and i + 2 < n and t[i + 2] == ":"):
        return None
    f["minute"] = t[i:i + 2]
    i += 3
    if not (i + 2 <= n and _all_in(t[i:i + 2], DIGITS)):
        return None
    f["second"] = t[i:i + 2]
    i += 2
    f["fraction"] = None
    if i < n and t[i] == ".":
        j = i + 1
        while j < n and t[j] in DIGITS:
            j += 1
        f["fraction"] = t[i + 1:j]
        i = j
    f["tz"] = None
    if i == n:
        return f
    k = i
    while k < n and t[k] in " \t":
        k += 1
    if k == n:
        return None            # trailing blanks without a zone
    if t[k] == "Z":
        if k + 1 != n:
            return None
        f["tz"] = ("Z", None, None)
        return f
    if t[k] not in "-+":
        return None
    sign = t[k]
    i = k + 1
    j = i
    while j < n and t[j] in DIGITS and j - i < 2:
        j += 1
    if j == i:
        return None
    hh = t[i:j]
    mm = None
    if j < n:
        if t[j] != ":" or j + 3 != n or not _all_in(t[j + 1:j + 3], DIGITS):
            return None
        mm = t[j + 1:j + 3]
    f["tz"] = (sign, hh, mm)
    return f


def is_timestamp(t):
    return _parse_timestamp(t) is not None


def classify(t):
    if is_bool(t):
        return "bool"
    if is_float(t):
        return "float"
    if is_int(t):
        return "int"
    if t == "<<":
        return "merge"
    if is_null(t):
        return "null"
    if t[:1] in DIGITS and is_timestamp(t):
        return "timestamp"
    if t == "=":
        return "value"
    return "str"


def tag_of(kind):
    return "tag:yaml.org,2002:" + kind


def _digits_value(s, base):
    digs = "0123456789abcdef"
    v = 0
    seen = False
    for c in s:
        if c == "_":
            continue
        v = v * base + digs.index(c.lower())
        seen = True
    return v if seen else None


def eval_int(t):
    sign, b = _strip_sign(t)
    neg = sign == "-"
    if b.startswith("0b"):
        v = _digits_value(b[2:], 2)
    elif b.startswith("0x"):
        v = _digits_value(b[2:], 16)
    elif b == "0":
        v = 0
    elif b[0] == "0":
        v = _digits_value(b[1:], 8)
        if v is None:
            v = 0            # '0_' : a zero followed by separators only
    elif ":" in b:
        v = 0
        for p in b.split(":"):
            d = _digits_value(p, 10)
            if d is None:
                return INVALID
            v = v * 60 + d
    else:
        v = _digits_value(b, 10)
    if v is None:
        return INVALID
    return -v if neg else v


def eval_float(t):
    sign, b = _strip_sign(t)
    neg = sign == "-"
    low = b.lower()
    if low == ".inf":
        return float("-inf") if neg else float("inf")
    if t.lower() == ".nan":
        return float("nan")
    s = b.replace("_", "")
    if ":" in s:
        # the exact rational value, rounded once (the library sums rounded terms: the comparison allows 1e-12 relative);
        # a value beyond the range of a double is infinite, as float("1.0e+400") is
        from fractions import Fraction
        total = Fraction(0)
        for p in s.split(":"):
            total = total * 60 + Fraction(p + "0" if p.endswith(".") else p)
        try:
            v = float(total)
        except OverflowError:
            v = float("inf")
    else:
        v = float(s)
    return -v if neg else v


def _days_in_month(y, m):
    if m == 2:
        leap = (y % 4 == 0 and y % 100 != 0) or y % 400 == 0
        return 29 if leap else 28
    return 30 if m in (4, 6, 9, 11) else 31


def eval_timestamp(t):
    f = _parse_timestamp(t)
    y, mo, d = int(f["year"]), int(f["month"]), int(f["day"])
    if not (1 <= y <= 9999 and 1 <= mo <= 12 and 1 <= d <= _days_in_month(y, mo)):
        return INVALID
    if f["hour"] is None:
        return datetime.date(y, mo, d)
    h, mi, s = int(f["hour"]), int(f["minute"]), int(f["second"])
    if not (h <= 23 and mi <= 59 and s <= 59):
        return INVALID
    frac = 0
    if f["fraction"]:
        frac = int((f["fraction"][:6]).ljust(6, "0"))
    tz = None
    if f["tz"] is not None:
        sign, hh, mm = f["tz"]
        if sign == "Z":
            tz = datetime.timezone.utc
        else:
            minutes = int(hh) * 60 + int(mm or 0)
            if minutes >= 24 * 60:
                return INVALID
            delta = datetime.timedelta(minutes=minutes)
            tz = datetime.timezone(-delta if sign == "-" else delta)
    return datetime.datetime(y, mo, d, h, mi, s, frac, tzinfo=tz)


def evaluate(t):
    k = classify(t)
    if k == "bool":
        return BOOLS[t.lower()]
    if k == "null":
        return None
    if k == "int":
        return eval_int(t)
    if k == "float":
        return eval_float(t)
    if k == "timestamp":
        return eval_timestamp(t)
    if k in ("merge", "value"):
        return UNDEFINED
    return t
