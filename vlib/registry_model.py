"""Executable model of the copy-on-write class registries (C10).

The rule: per registry kind a class either has its own table - created at its first registration as a copy of the table
it saw at that moment (for implicit resolvers a copy of every per-character list) - or none, in which case lookup follows
the MRO.  A registration changes the table of the target class only.
"""
import copy

KINDS = {
    "ctor": "yaml_constructors",
    "mctor": "yaml_multi_constructors",
    "repr": "yaml_representers",
    "mrepr": "yaml_multi_representers",
    "implicit": "yaml_implicit_resolvers",
    "path": "yaml_path_resolvers",
}


def snapshot_table(kind, table):
    if kind == "implicit":
        return {k: list(v) for k, v in table.items()}
    return dict(table)


class Model:
    def __init__(self, classes):
        """classes: every real class that may appear in an MRO.  Initial own tables are the observed ones."""
        self.own = {}        # (class, kind) -> table
        for cls in classes:
            self.adopt(cls)

    def adopt(self, cls):
        for c in cls.__mro__:
            for kind, attr in KINDS.items():
                if (c, kind) not in self.own and attr in c.__dict__:
                    self.own[(c, kind)] = snapshot_table(kind, c.__dict__[attr])

    def new_class(self, cls):
        """A freshly defined subclass owns nothing (YAMLObject registration is applied separately): whatever tables the real class
        may carry at this point are NOT taken over - defining a class is not a registration, so the rule says it keeps following
        its bases.  (Only bases the model has not met yet are adopted.)"""
        for b in cls.__mro__[1:]:
            for kind, attr in KINDS.items():
                if (b, kind) not in self.own and attr in b.__dict__:
                    self.own[(b, kind)] = snapshot_table(kind, b.__dict__[attr])

    def owner(self, cls, kind):
        for c in cls.__mro__:
            if (c, kind) in self.own:
                return c
        return None

    def effective(self, cls, kind):
        o = self.owner(cls, kind)
        return self.own[(o, kind)] if o is not None else None

    def register(self, cls, kind, key, value):
        if (cls, kind) not in self.own:
            eff = self.effective(cls, kind)
            self.own[(cls, kind)] = snapshot_table(kind, eff if eff is not None else {})
        table = self.own[(cls, kind)]
        if kind == "implicit":
            tag, regexp, first = value
            for ch in (first if first is not None else [None]):
                table.setdefault(ch, []).append((tag, regexp))
        else:
            table[key] = value


def real_effective(cls, kind):
    return getattr(cls, KINDS[kind], None)


def tables_equal(kind, model_table, real_table):
    if model_table is None or real_table is None:
        return model_table is None and real_table is None
    if kind == "implicit":
        if set(model_table) != set(real_table):
            return False
        for ch in model_table:
            a = [(t, r.pattern) for t, r in model_table[ch]]
            b = [(t, r.pattern) for t, r in real_table[ch]]
            if a != b:
                return False
        return True
    if list(model_table.keys()) != list(real_table.keys()) and set(model_table.keys()) != set(real_table.keys()):
        return False
    for k in model_table:
        if model_table[k] != real_table[k]:
            return False
    return True
