"""Shared machinery of C01 / C04: canary catalogue, tagged-document generator/renderer and the effect monitor.

Abstract documents (plain data):

  doc   := {"handles": bool, "redefine": bool, "root": node, "explicit": bool}
  node  := ("s", tagref, anchor, text)
         | ("q", tagref, anchor, [node...])
         | ("m", tagref, anchor, [pair...])          pair := ("kv", node, node) | ("merge", node) | ("mergelist", tagref, [node...])
         | ("set", anchor, [node...])                -> !!set {member: null, ...}
         | ("omap"|"pairs", anchor, [(tagref, node, node)...])   -> !!omap [ TAG {k: v}, ... ]
         | ("eq", coretag, node, anchor)             -> !!str {=: node}
         | ("a", n)
  tagref:= None | ("core", name) | ("py", form, family, name) | ("local", "!foo") | ("uri", "tag:...") | ("bang",)
           form in shorthand|verbatim|handle

render(doc) -> (text, positions) where positions lists, for every node that carries a tag outside the YAML 1.1 core
set, (context, consumed: bool, tag).  'consumed' marks nodes the constructor consumes structurally without dispatching
on their tag (merge sources, merge lists and their items, omap/pairs entry mappings, targets of '=').
"""
import os
import sys

from hypothesis import strategies as st

CORE = ["null", "bool", "int", "float", "binary", "timestamp", "omap", "pairs", "set", "str", "seq", "map"]
CORE_TAGS = {"tag:yaml.org,2002:" + n for n in CORE}
PY = "tag:yaml.org,2002:python/"
OBJECT_FAMILIES = ["object:", "object/new:", "object/apply:", "module:"]
NAME_FAMILY = "name:"
VALUE_TAGS = ["none", "bool", "str", "unicode", "bytes", "int", "long", "float", "complex", "list", "tuple", "dict"]

# names a document may mention.  (module, attr) pairs are resolved by the harness itself, never by importing.
NAMES = [
    "canary_imported.func", "canary_imported.Obj", "canary_imported.Plain", "canary_imported.VALUE", "canary_imported.LIST",
    "canary_imported.ListSub", "canary_imported.INSTANCE", "canary_imported.Obj.method", "canary_imported.WithProperty.value",
    "canary_imported", "canary_imported.missing",
    "canary_imported.GENLIKE", "canary_imported.ITERLIKE", "canary_imported.CALLABLE", "canary_imported.CONTEXT", "canary_imported.NATIVE_GEN",
    # module-level mutable containers and registry-like instances of container subclasses (a name must hand out the attribute itself)
    "canary_imported.DICT", "canary_imported.SET", "canary_imported.BYTEARRAY", "canary_imported.REGISTRY", "canary_imported.TABLE",
    "canary_imported.SETSUB", "sys.path", "sys.argv",
    # classes an application derived from its YAMLObject classes (imported, never constructible through python/object* tags)
    "canary_app.Base", "canary_app.Derived", "canary_app.DerivedWithState",
    "canary_unimported.func", "canary_unimported", "canary_unimported.VALUE",
    "canary_pkg.sub.attr", "canary_pkg.sub.func", "canary_pkg.sub", "canary_pkg",
    "os.system", "os.getcwd", "os.path.join", "os.environ", "os", "os.path", "subprocess.Popen", "subprocess.check_output",
    "builtins.eval", "builtins.exec", "builtins.open", "builtins.__import__", "builtins.print", "eval", "exec", "open", "len",
    "int", "dict", "list", "object", "type", "sys.modules", "sys", "yaml.load", "yaml.UnsafeLoader", "yaml",
    "yaml.constructor.UnsafeConstructor", "datetime.datetime", "datetime", "re.compile", "collections.OrderedDict",
    "", ".", "a b", "nonexistent_module_xyz.attr", "os.nonexistent", "os..system", "1abc", "antigravity.fly", "this.s",
    "ctypes.CDLL", "pickle.loads", "importlib.import_module", "types.FunctionType",
    # dotted paths that run through a class (attributes of classes are not attributes of modules; looking them up may run code)
    "canary_imported.Settings.instance", "canary_imported.Settings.current", "canary_imported.Settings.Nested", "canary_imported.Settings.Nested.VALUE",
    "collections.OrderedDict.fromkeys", "datetime.datetime.now", "os.path.join.__call__",
    # names that mean something to a formatting operator
    "%s", "a%sb.c%d", "%(x)s.%(y)s", "canary_imported.%s", "os.%n", "100%",
]

# the subset of NAMES whose *call* the monitor reports (the others are used legitimately by the library or the harness)
WATCH = {n for n in NAMES if n.startswith("canary_imported.")} | {
    "os.system", "os.getcwd", "subprocess.Popen", "subprocess.check_output", "builtins.eval", "builtins.exec", "builtins.open",
    "builtins.__import__", "builtins.print", "eval", "exec", "open", "pickle.loads",
    "importlib.import_module", "ctypes.CDLL"}

# names that matter most: resolvable only by importing, or recording what is done to them
HOT_NAMES = ["canary_unimported.func", "canary_unimported.VALUE", "canary_unimported", "canary_pkg.sub.attr", "canary_pkg.sub.func",
             "canary_pkg.sub", "canary_pkg", "canary_imported.func", "canary_imported.Obj", "canary_imported.Plain",
             "canary_imported.ListSub", "os.system", "antigravity.fly", "this.s", "canary_imported.GENLIKE", "canary_imported.ITERLIKE",
             "canary_app.Derived", "canary_app.DerivedWithState", "canary_imported.CALLABLE", "canary_imported.REGISTRY", "canary_imported.TABLE", "canary_imported.SETSUB", "canary_imported.Settings.instance", "canary_imported.Settings.current", "canary_imported.Obj.method",
             "collections.OrderedDict.fromkeys", "%(x)s.%(y)s", "canary_imported.%s"]

TAG_CH = set("ABCDEFGHIJKLMNOPQRSTUVWXYZabcdefghijklmnopqrstuvwxyz0123456789-;/?:@&=+$_.~*'()")
SCALAR_TEXTS = ["", "a", "1", "2.5", "true", "~", "2001-01-01", "x y", "k", "v", "0x1F", "[1]", "os.system", "1+2j", "abc", "app", "app3", "app-key", "appd",
                # scalars at the edge of what the core converters can evaluate (only YAML errors may escape)
                "1" + ":00" * 180 + ".5", "-9" + ":59" * 176 + ".", "1" + ":59" * 300, "1.0e+400", "0x" + "f" * 300, "2001-02-30", "9999-12-31 23:59:59.999999 -23:59",
                "0001-01-01 00:00:00 +23:59", "0b_", "-0x_", "1__"]
# ('=' and '<<' are not scalar texts here: as plain keys they ARE the value / merge keys, whose structurally consumed nodes the
# position classifier only knows through the dedicated 'eq' / 'merge' node kinds)


def uri_escape(s):
    out = []
    for ch in s:
        if ch in TAG_CH:
            out.append(ch)
        else:
            out.append("".join("%%%02X" % b for b in ch.encode("utf-8")))
    return "".join(out)


def full_tag(tagref):
    if tagref is None:
        return None
    k = tagref[0]
    if k == "core":
        return "tag:yaml.org,2002:" + tagref[1]
    if k == "py":
        return PY + tagref[2] + tagref[3]
    if k in ("local", "uri"):
        return tagref[1]
    if k == "bang":
        return "!"
    raise AssertionError(tagref)


def is_foreign(tagref):
    t = full_tag(tagref)
    return t is not None and t != "!" and t not in CORE_TAGS


class Renderer:
    def __init__(self, doc):
        self.doc = doc
        self.positions = []
        self.anchors = []
        self.count = 0
        self.uses_handle = False

    def tag_text(self, tagref):
        if tagref is None:
            return ""
        k = tagref[0]
        if k == "core":
            return "!!" + tagref[1] + " "
        if k == "bang":
            return "! "
        if k == "local":
            return "!" + uri_escape(tagref[1][1:]) + " "
        if k == "uri":
            return "!<%s> " % uri_escape(tagref[1])
        _, form, family, name = tagref
        suffix = uri_escape(family + name)
        if form == "verbatim":
            return "!<%spython/%s> " % ("tag:yaml.org,2002:", suffix)
        if form == "handle":
            self.uses_handle = True
            if self.doc.get("redefine"):
                return "!!%s " % suffix if suffix else "!<%s> " % PY
            return "!p!%s " % suffix if suffix else "!<%s> " % PY
        if self.doc.get("redefine"):
            # '!!' is redefined in this document: the shorthand must go through the verbatim form
            return "!<%spython/%s> " % ("tag:yaml.org,2002:", suffix)
        return "!!python/%s " % suffix

    def props(self, tagref, anchor, ctx, consumed):
        out = ""
        if anchor:
            self.count += 1
            name = "a%d" % self.count
            self.anchors.append(name)
            out += "&%s " % name
        out += self.tag_text(tagref)
        if is_foreign(tagref):
            self.positions.append((ctx, consumed, full_tag(tagref)))
        return out

    def scalar_text(self, text):
        return "'%s'" % text.replace("'", "''")

    def node(self, n, ctx, consumed=False):
        k = n[0]
        if k == "a":
            if not self.anchors:
                return "noalias"
            return "*%s" % self.anchors[n[1] % len(self.anchors)]
        if k == "s":
            _, tagref, anchor, text = n
            p = self.props(tagref, anchor, ctx, consumed)
            if p or text == "" or text[0] in "[{!&*'\"#|>%@`-?:," or ": " in text or " #" in text:
                return p + self.scalar_text(text)
            return p + text
        if k == "q":
            _, tagref, anchor, items = n
            p = self.props(tagref, anchor, ctx, consumed)
            if tagref in (("core", "omap"), ("core", "pairs")):
                # a sequence written with the core tag !!omap / !!pairs IS an omap / pairs: the constructor looks into its
                # entry mappings structurally (their own tag is not dispatched on), keys and values are constructed normally
                return p + "[" + ", ".join(self.node(c, "%s-entry" % tagref[1], consumed=(c[0] == "m")) for c in items) + "]"
            return p + "[" + ", ".join(self.node(c, "item") for c in items) + "]"
        if k == "m":
            _, tagref, anchor, pairs = n
            p = self.props(tagref, anchor, ctx, consumed)
            parts = []
            for pr in pairs:
                if pr[0] == "kv":
                    parts.append("? %s : %s" % (self.node(pr[1], "key"), self.node(pr[2], "value")))
                elif pr[0] == "merge" and pr[1][0] == "q":
                    # a sequence as merge value is a merge list: its items are consumed structurally as well
                    _, tref, anc, srcs = pr[1]
                    tp = self.props(tref, anc, "merge-list", True)
                    parts.append("<< : %s[%s]" % (tp, ", ".join(self.node(s, "merge-item", consumed=True) for s in srcs)))
                elif pr[0] == "merge":
                    parts.append("<< : %s" % self.node(pr[1], "merge-source", consumed=True))
                else:
                    _, tref, srcs = pr
                    tp = self.props(tref, False, "merge-list", True)
                    parts.append("<< : %s[%s]" % (tp, ", ".join(self.node(s, "merge-item", consumed=True) for s in srcs)))
            return p + "{" + ", ".join(parts) + "}"
        if k == "set":
            _, anchor, members = n
            p = self.props(("core", "set"), anchor, ctx, consumed)
            return p + "{" + ", ".join("? %s" % self.node(c, "set-member") for c in members) + "}"
        if k in ("omap", "pairs"):
            _, anchor, entries = n
            p = self.props(("core", k), anchor, ctx, consumed)
            parts = []
            for tref, kn, vn in entries:
                tp = self.props(tref, False, "%s-entry" % k, True)
                parts.append("%s{? %s : %s}" % (tp, self.node(kn, "%s-key" % k), self.node(vn, "%s-value" % k)))
            return p + "[" + ", ".join(parts) + "]"
        if k == "eq":
            _, coretag, target = n[:3]
            p = self.props(("core", coretag), len(n) > 3 and n[3], ctx, consumed)
            return p + "{= : %s}" % self.node(target, "eq-target", consumed=True)
        raise AssertionError(n)


def render(doc):
    r = Renderer(doc)
    body = r.node(doc["root"], "root")
    head = ""
    if r.uses_handle or doc.get("handles"):
        if doc.get("redefine"):
            head += "%%TAG !! %s\n" % PY
        else:
            head += "%%TAG !p! %s\n" % PY
    if head or doc.get("explicit"):
        head += "--- "
    return head + body + "\n", r.positions


# ------------------------------------------------------------------------------------------------
# strategies

def tagrefs(families, names=None, weight_foreign=3):
    names = st.sampled_from(names) if names else st.one_of(st.sampled_from(NAMES), st.sampled_from(HOT_NAMES))
    forms = st.sampled_from(["shorthand", "shorthand", "verbatim", "handle"])
    fams = st.sampled_from(families)
    py = st.tuples(st.just("py"), forms, fams, names)
    pyval = st.tuples(st.just("py"), forms, st.sampled_from(VALUE_TAGS), st.just(""))
    other = st.sampled_from([("local", "!foo"), ("local", "!str"), ("local", "!seq"), ("local", "!map"), ("local", "!python/object:os.system"), ("local", "!app-c"), ("local", "!app-m/x"),
                             ("local", "!app-c2"), ("local", "!app-m2/x"), ("local", "!app-c3"), ("local", "!app-m3/x"), ("local", "!app-d"), ("local", "!app-dm/x"),
                             ("uri", "tag:example.com,2000:x"),
                             ("uri", "tag:yaml.org,2002:python"), ("uri", "tag:yaml.org,2002:python/"),
                             ("uri", "tag:yaml.org,2002:python/object"), ("uri", "tag:yaml.org,2002:yaml"), ("bang",),
                             ("uri", "tag:yaml.org,2002:Python/name:os.system"), ("uri", "tag:yaml.org,2002:str2"),
                             # verbatim tags that look like something the resolver or the specification gives a meaning to: one-character
                             # tags ('?' is the specification's name for "no tag"), the bare core prefix, core names in another spelling
                             ("uri", "?"), ("uri", "*"), ("uri", "~"), ("uri", "."), ("uri", "-"), ("uri", "tag:yaml.org,2002:"), ("uri", "tag:yaml.org,2002:Str"),
                             ("uri", "str"), ("uri", "!!str"), ("uri", "tag:yaml.org,2002:map "), ("uri", "??"), ("uri", "!"), ("uri", "?!")])
    core = st.sampled_from(CORE).map(lambda n: ("core", n))
    return st.one_of(*([py] * weight_foreign), pyval, other, core, st.none(), st.none())


def nodes(families, max_leaves=8, names=None, registry_tags=()):
    tr = tagrefs(families, names)
    if registry_tags:
        tr = st.one_of(tr, tr, st.sampled_from(list(registry_tags)).map(lambda t: ("uri", t)))
    anchor = st.sampled_from([False, False, True])
    def name_value(t):
        # python/name and python/module demand an empty value: give them one most of the time
        kind, tagref, anc, text, keep = t
        if tagref is not None and tagref[0] == "py" and tagref[2] in ("name:", "module:") and not keep:
            text = ""
        return (kind, tagref, anc, text)
    scalar = st.tuples(st.just("s"), tr, anchor, st.sampled_from(SCALAR_TEXTS), st.sampled_from([False, False, False, True])).map(name_value)
    plain = st.tuples(st.just("s"), st.none(), st.just(False), st.sampled_from(SCALAR_TEXTS[1:]))
    # the shape that reaches the name/module lookup: a name or module tag, a hot name, the empty value it demands
    hot = st.tuples(st.just("s"), st.tuples(st.just("py"), st.sampled_from(["shorthand", "shorthand", "verbatim", "handle"]),
                                            st.sampled_from(["name:", "name:", "module:"]), st.sampled_from(names or HOT_NAMES)),
                    anchor, st.just(""))
    alias = st.integers(0, 20).map(lambda n: ("a", n))
    leaf = st.one_of(scalar, scalar, plain, alias, hot)

    def extend(ch):
        argmap = st.tuples(st.just("m"), tr, anchor, st.lists(st.tuples(
            st.just("kv"), st.sampled_from(["args", "kwds", "state", "listitems", "dictitems"]).map(lambda k: ("s", None, False, k)), ch),
            max_size=3))
        pair = st.one_of(st.tuples(st.just("kv"), st.one_of(plain, plain, ch), ch),
                         st.tuples(st.just("kv"), st.one_of(plain, plain, ch), ch),
                         st.tuples(st.just("merge"), ch),
                         st.tuples(st.just("mergelist"), st.one_of(st.none(), st.none(), tr), st.lists(ch, max_size=3)))
        # an inline merge source whose entry is shadowed by an own key of the merging mapping: the shadowed value is still
        # part of the document and must be constructed (and rejected when its tag is foreign)
        ktext = st.sampled_from(["k", "v", "a", "1", "cmd"])
        shadow = st.tuples(ktext, ch, ch, st.booleans()).map(lambda t: ("m", None, False, (
            [("merge", ("m", None, False, [("kv", ("s", None, False, t[0]), t[1]), ("kv", ("s", None, False, "keep"), ("s", None, False, "1"))])),
             ("kv", ("s", None, False, t[0]), t[2])] if t[3] else
            [("kv", ("s", None, False, t[0]), t[2]),
             ("mergelist", None, [("m", None, False, [("kv", ("s", None, False, t[0]), t[1])]), ("m", None, False, [("kv", ("s", None, False, t[0]), t[2])])])])))
        return st.one_of(
            shadow,
            st.tuples(st.just("q"), tr, anchor, st.lists(ch, max_size=4)),
            st.tuples(st.just("m"), tr, anchor, st.lists(pair, max_size=4)),
            argmap,
            st.tuples(st.just("set"), anchor, st.lists(ch, max_size=3)),
            st.tuples(st.sampled_from(["omap", "pairs"]), anchor,
                      st.lists(st.tuples(st.one_of(st.none(), st.none(), tr), ch, ch), max_size=3)),
            st.tuples(st.just("eq"), st.sampled_from(["str", "str", "int", "float", "binary", "timestamp", "bool", "null"]), ch,
                      st.sampled_from([False, True])))
    return st.recursive(leaf, extend, max_leaves=max_leaves)


def documents(families, **kw):
    return st.fixed_dictionaries({"handles": st.booleans(), "redefine": st.sampled_from([False, False, False, True]),
                                  "explicit": st.booleans(), "root": nodes(families, **kw)})


# ------------------------------------------------------------------------------------------------
# monitor

CANARY_DIR = os.path.join(os.path.dirname(os.path.dirname(os.path.abspath(__file__))), "canaries")
AUDIT_WATCH = ("import", "exec", "compile", "os.system", "os.exec", "os.posix_spawn", "os.spawn", "subprocess.Popen", "open",
               "os.fork", "ctypes.dlopen", "socket.connect", "os.putenv", "os.remove", "os.rename", "os.mkdir")

_state = {"armed": False, "events": [], "installed": False}


def _audit(event, args):
    if _state["armed"] and event in AUDIT_WATCH:
        _state["armed"] = False
        try:
            _state["events"].append((event, repr(args)[:120]))
        finally:
            _state["armed"] = True


def install():
    """Once per worker process: put canaries on sys.path, import the 'imported' canary, install the audit hook."""
    if _state["installed"]:
        return
    if CANARY_DIR not in sys.path:
        sys.path.append(CANARY_DIR)
    import canary_imported  # noqa: F401
    import canary_app  # noqa: F401  (an application's YAMLObject classes and their untagged subclasses; registers '!c04-base' on the default loaders)
    import subprocess, pickle, shutil, ctypes, code, types, importlib, collections, datetime, re  # noqa: F401,E401
    sys.addaudithook(_audit)
    _state["installed"] = True


def stdlib_dirs():
    import sysconfig
    out = {sysconfig.get_paths()["stdlib"], sysconfig.get_paths().get("platstdlib")}
    out.add(os.path.dirname(os.__file__))
    return tuple(d for d in out if d)


def resolve_named_objects():
    """Objects the catalogue names that exist in already imported modules (resolved without importing)."""
    import builtins
    out = {}
    for name in NAMES:
        if not name or name.startswith(".") or ".." in name or name not in WATCH:
            continue
        parts = name.split(".")
        for cut in range(len(parts), 0, -1):
            mod = sys.modules.get(".".join(parts[:cut]))
            if mod is None:
                continue
            obj = mod
            ok = True
            for p in parts[cut:]:
                d = getattr(obj, "__dict__", {})
                if isinstance(obj, type):
                    found = False
                    for klass in obj.__mro__:
                        if p in klass.__dict__:
                            obj = klass.__dict__[p]
                            found = True
                            break
                    if not found:
                        ok = False
                        break
                elif p in d:
                    obj = d[p]
                else:
                    ok = False
                    break
            if ok:
                out[name] = obj
            break
        if "." not in name and hasattr(builtins, name):
            out[name] = getattr(builtins, name)
    return out


class Monitor:
    """Observes one load call: audit events, new modules, canary records, calls into code outside the library and
    the standard library, and calls of any object the catalogue names."""

    def __init__(self, yaml_dir, named):
        self.yaml_dir = os.path.realpath(yaml_dir)
        self.std = tuple(os.path.realpath(d) for d in stdlib_dirs())
        here = os.path.dirname(os.path.abspath(__file__))
        self.harness = (os.path.realpath(here), os.path.realpath(os.path.join(os.path.dirname(here), "checks")))
        try:    # Hypothesis registers a gc callback that may run at any allocation
            import hypothesis
            self.harness += (os.path.realpath(os.path.dirname(hypothesis.__file__)),)
        except ImportError:
            pass
        self.named_ids = {}
        for name, obj in named.items():
            self.named_ids[id(obj)] = name
            code = getattr(obj, "__code__", None)
            if code is not None:
                self.named_ids[id(code)] = name
        self.file_ok = {}
        self.problems = []

    def _file_allowed(self, fn):
        r = self.file_ok.get(fn)
        if r is None:
            if fn.startswith("<frozen") or fn.startswith("<string>") and False:
                r = True
            else:
                real = os.path.realpath(fn)
                r = (real.startswith(self.yaml_dir + os.sep) or any(real.startswith(d + os.sep) for d in self.std)
                     or any(real.startswith(d + os.sep) for d in self.harness))
                if "site-packages" in real and not any(real.startswith(d + os.sep) for d in self.harness):
                    r = False
            self.file_ok[fn] = r
        return r

    def _prof(self, frame, event, arg):
        if event == "call":
            code = frame.f_code
            if id(code) in self.named_ids:
                self.problems.append("called %s" % self.named_ids[id(code)])
            elif not self._file_allowed(code.co_filename):
                self.problems.append("python call into %s:%s" % (os.path.basename(code.co_filename), code.co_name))
        elif event == "c_call":
            if id(arg) in self.named_ids:
                self.problems.append("called builtin %s" % self.named_ids[id(arg)])

    def __enter__(self):
        import canary_imported
        self.canary = canary_imported
        canary_imported.reset()
        del canary_imported.CALLS[:]
        self.modules_before = set(sys.modules)
        del _state["events"][:]
        marks = sys.modules.get("__canary_marks__")
        self.marks_before = dict(vars(marks)) if marks else {}
        _state["armed"] = True
        sys.setprofile(self._prof)
        return self

    def __exit__(self, *a):
        sys.setprofile(None)
        _state["armed"] = False
        for ev in _state["events"]:
            self.problems.append("audit event %s %s" % ev)
        new = set(sys.modules) - self.modules_before
        if new:
            self.problems.append("new modules imported: %s" % sorted(new)[:5])
            for m in new:
                if m.startswith("canary") or m == "__canary_marks__":
                    sys.modules.pop(m, None)
        for c in self.canary.CALLS:
            self.problems.append("canary recorded %r" % (c,))
        return False

    def keys(self):
        """Root-cause keys of what was observed (first word groups)."""
        out = []
        for p in self.problems:
            k = p.split(" ")
            out.append(" ".join(k[:3]) if k[0] in ("audit", "canary") else " ".join(k[:2]))
        return sorted(set(out))
