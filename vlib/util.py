"""Small helpers shared by the checks."""
import os
import traceback


def exc_key(exc):
    """Root-cause signature of an exception: type + innermost frame inside the yaml package."""
    tb = traceback.extract_tb(exc.__traceback__)
    where = "?"
    for fr in reversed(tb):
        fn = fr.filename.replace("\\", "/")
        if "/yaml/" in fn and "/verif/" not in fn:
            where = "%s:%s" % (os.path.basename(fn), fr.name)
            break
    return "%s@%s" % (type(exc).__name__, where)


def exc_msg(exc, limit=300):
    s = "%s: %s" % (type(exc).__name__, exc)
    return s[:limit]


def yaml_mod():
    import yaml
    return yaml


def have_c():
    import yaml
    return bool(yaml.__with_libyaml__)


def strings_in(obj, _seen=None):
    """All str objects reachable from a safe-universe value."""
    _seen = _seen if _seen is not None else set()
    out = []
    stack = [obj]
    while stack:
        x = stack.pop()
        if isinstance(x, str):
            out.append(x)
        elif isinstance(x, (list, set, tuple, frozenset)):
            if id(x) in _seen:
                continue
            _seen.add(id(x))
            stack.extend(x)
        elif isinstance(x, dict):
            if id(x) in _seen:
                continue
            _seen.add(id(x))
            stack.extend(x.keys())
            stack.extend(x.values())
    return out


def objects_in(obj):
    seen = set()
    out = []
    stack = [obj]
    while stack:
        x = stack.pop()
        if isinstance(x, (list, set, tuple, frozenset, dict)):
            if id(x) in seen:
                continue
            seen.add(id(x))
            if isinstance(x, dict):
                stack.extend(x.keys())
                stack.extend(x.values())
            else:
                stack.extend(x)
        out.append(x)
    return out


import re as _re
_BREAKS = _re.compile("\r\n|[\r\n\x85\u2028\u2029]")


def has_foldable_more_indented_line(text):
    """A line that starts with a space and has a non-space character: a more-indented line, inside which
    libyaml's folded-scalar writer may fold (at any of its spaces, including the leading ones) once the
    column exceeds the width (known finding)."""
    for l in _BREAKS.split(text):
        if l.startswith(" ") and l.strip(" ") != "":
            return True
    return False


def shorthand_with_flow_indicator(events):
    """True when some node event of the stream carries a tag that an emitter writes as a shorthand (handle + suffix) whose
    suffix contains ',', '[' or ']' - LibYAML 0.2.5 writes these raw and its own scanner rejects them in a shorthand."""
    prefixes = {}
    for e in events:
        name = type(e).__name__
        if name == "DocumentStartEvent":
            prefixes = {"!": "!", "tag:yaml.org,2002:": "!!"}
            for h, pfx in (getattr(e, "tags", None) or {}).items():
                prefixes[pfx] = h
        tag = getattr(e, "tag", None) if name in ("ScalarEvent", "SequenceStartEvent", "MappingStartEvent") else None
        if not tag or tag == "!":
            continue
        for pfx in prefixes:
            if tag.startswith(pfx) and (pfx == "!" or len(pfx) < len(tag)) and any(c in tag[len(pfx):] for c in ",[]"):
                return True
    return False
