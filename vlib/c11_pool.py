"""Item pool and call catalogue for C11 (call histories).  Nothing here calls into yaml at import time."""
import io

TEXTS = [
    "a: 1\nb: [x, y]\n",
    "%YAML 1.1\n%TAG !e! tag:example.com,2000:\n--- !e!foo\n- &a [1, 2]\n- *a\n",
    "--- &r\n- *r\n- {k: *r}\n",
    "--- a\n--- b\n...\n--- [c]\n",
    "k: |\n  line1\n  line2\n\nj: >-\n  folded\n  text\n",
    "caf\xe9: \U0001F600\n",
    "? [a, b]\n: !!set {x, y}\n",
    "- 2001-12-14t21:59:43.10-05:00\n- 0x1F\n- 1_000.5\n- !!binary YWJj\n- ~\n",
    "<<: {a: 1}\nb: 2\n",
    # failing at each stage
    "a: \x07\n",                              # reader
    "a: \"unterminated\n",                    # scanner
    "a: [1, 2\nb: 3\n",                       # parser
    "- *undefined\n",                         # composer
    "- &x 1\n- &x 2\n",                       # composer (duplicate anchor)
    "- !unknown-tag x\n- later\n",            # constructor
    "- !!int notanint\n",                     # constructor (core)
    "- ok\n--- second\n",                     # single-document load of two documents
    "- !!python/object:canary_objs.Node {a: 1}\n- !!python/tuple [1, 2]\n- !!python/name:os.sep ''\n",
    "%TAG !e! tag:example.com,2000:\n--- !e!a x\n--- !e!b y\n",     # handle of document 1 used in document 2
    "%YAML 1.1\n--- a\n--- b\n",
    "'caf\xe9'\n",
    "[" * 40 + "]" * 40 + "\n",
    "",
    "# only a comment\n",
    "!!python/object/apply:canary_objs.Node []\n",
    "- a\n- \tb: c\n",
    "a: {b: [1, 2\n",                          # parser error below a path-resolved position
    "a: {b: !unknown x}\nc: d\n",
]


class Unrepresentable:
    pass


def values():
    shared = [1, 2]
    rec = {}
    rec["self"] = rec
    return [
        {"a": 1, "b": [1.5, None, True, "x"]},
        [shared, shared, {"k": shared}],
        rec,
        "caf\xe9",
        "multi\nline\n\ntext ",
        ["ok", Unrepresentable(), "never reached"],      # fails half-way under the safe dumpers
        {"z": 1, "a": 2, "m": {3, 1, 2}},
        [b"bytes", 10**30, float("inf"), -0.0],
        "",
        {"key " * 40: "long key"},
        ["\x85", "\u2028", "퟿", "\x07"],
        {1: "a", "1": "b", 1.5: "c", None: "d", True: "e"},
    ]


def event_lists():
    from yaml import events as E
    ok = [E.StreamStartEvent(), E.DocumentStartEvent(tags={"!e!": "tag:example.com,2000:"}), E.SequenceStartEvent("a1", None, True),
          E.ScalarEvent(None, "tag:example.com,2000:x", (False, False), "v"), E.AliasEvent("a1"), E.SequenceEndEvent(),
          E.DocumentEndEvent(), E.StreamEndEvent()]
    bad = [E.StreamStartEvent(), E.DocumentStartEvent(), E.SequenceStartEvent(None, None, True), E.ScalarEvent(None, None, (True, True), "a"),
           E.DocumentEndEvent(), E.StreamEndEvent()]
    bad2 = [E.StreamStartEvent(), E.DocumentStartEvent(), E.ScalarEvent(None, None, (False, False), "no tag, not implicit"), E.DocumentEndEvent(),
            E.StreamEndEvent()]
    two = [E.StreamStartEvent(), E.DocumentStartEvent(version=(1, 1)), E.ScalarEvent(None, None, (True, True), "a"), E.DocumentEndEvent(),
           E.DocumentStartEvent(), E.ScalarEvent(None, None, (True, True), "caf\xe9"), E.DocumentEndEvent(), E.StreamEndEvent()]
    return [ok, bad, bad2, two]


DUMP_OPTS = [{}, {"allow_unicode": True}, {"default_flow_style": True, "width": 20}, {"canonical": True},
             {"tags": {"!e!": "tag:example.com,2000:"}, "version": (1, 1), "explicit_start": True}, {"default_style": '"', "indent": 4},
             {"sort_keys": False, "explicit_end": True}, {"encoding": "utf-16-le"}]


def summarize(x, depth=0):
    """Comparable, address-free summary of a token / event / node / object."""
    import datetime
    name = type(x).__name__
    if isinstance(x, (str, bytes, int, float, bool, type(None), complex, datetime.date)):
        return (name, repr(x))
    if name.endswith("Token") or name.endswith("Event"):
        attrs = []
        for a in ("value", "anchor", "tag", "implicit", "style", "plain", "explicit", "version", "tags", "flow_style", "name"):
            if hasattr(x, a):
                attrs.append((a, repr(getattr(x, a))))
        return (name, tuple(attrs), x.start_mark.line, x.start_mark.column, x.end_mark.line, x.end_mark.column)
    if name.endswith("Node") and hasattr(x, "tag") and hasattr(x, "value"):
        seen = {}

        def go(n):
            if id(n) in seen:
                return ("ref", seen[id(n)])
            seen[id(n)] = len(seen)
            if n.id == "scalar":
                return ("S", n.tag, n.value)
            if n.id == "sequence":
                return ("Q", n.tag, tuple(go(c) for c in n.value))
            return ("M", n.tag, tuple((go(k), go(v)) for k, v in n.value))
        return go(x)
    seen = {}

    def obj(o, d):
        if isinstance(o, (list, dict, set, tuple)) or hasattr(o, "__dict__") and type(o).__module__ in ("canary_objs", "canary_yobjs"):
            if id(o) in seen:
                return ("ref", seen[id(o)])
            seen[id(o)] = len(seen)
            if isinstance(o, (list, tuple)):
                return (type(o).__name__, tuple(obj(i, d + 1) for i in o))
            if isinstance(o, dict):
                return ("dict", tuple((obj(k, d + 1), obj(v, d + 1)) for k, v in o.items()))
            if isinstance(o, set):
                return ("set", tuple(sorted(repr(obj(i, d + 1)) for i in o)))
            return (type(o).__name__, obj(o.__dict__, d + 1))
        if callable(o) or isinstance(o, type):
            return ("named", getattr(o, "__qualname__", repr(type(o))))
        return (type(o).__name__, repr(o))
    return obj(x, 0)


def loader_classes(yaml):
    names = ["BaseLoader", "SafeLoader", "FullLoader", "UnsafeLoader"]
    if yaml.__with_libyaml__:
        names += ["CBaseLoader", "CSafeLoader", "CFullLoader", "CUnsafeLoader"]
    return names


def dumper_classes(yaml):
    names = ["SafeDumper", "Dumper"]
    if yaml.__with_libyaml__:
        names += ["CSafeDumper", "CDumper"]
    return names


def calls(yaml):
    """Catalogue of (name, function(item_index, k) -> outcome summary).  k = how many items of a generator are consumed
    before it is abandoned (None = all)."""
    out = []
    vals = values()
    evs = event_lists()

    def consume(gen, k):
        res = []
        try:
            for i, x in enumerate(gen):
                if k is not None and i >= k:
                    break
                res.append(summarize(x))
        finally:
            close = getattr(gen, "close", None)
            if close:
                close()
        return res

    for ln in loader_classes(yaml):
        L = getattr(yaml, ln)
        out.append(("scan:%s" % ln, "text", lambda i, k, L=L: consume(yaml.scan(TEXTS[i], Loader=L), k)))
        out.append(("parse:%s" % ln, "text", lambda i, k, L=L: consume(yaml.parse(TEXTS[i], Loader=L), k)))
        out.append(("compose:%s" % ln, "text", lambda i, k, L=L: summarize(yaml.compose(TEXTS[i], Loader=L)) if TEXTS[i] else None))
        out.append(("compose_all:%s" % ln, "text", lambda i, k, L=L: consume(yaml.compose_all(TEXTS[i], Loader=L), k)))
        out.append(("load:%s" % ln, "text", lambda i, k, L=L: summarize(yaml.load(TEXTS[i], Loader=L))))
        out.append(("load_all:%s" % ln, "text", lambda i, k, L=L: consume(yaml.load_all(TEXTS[i], Loader=L), k)))
        out.append(("load-bytes:%s" % ln, "text", lambda i, k, L=L: summarize(yaml.load(TEXTS[i].encode("utf-16-be" if i % 2 else "utf-8"), Loader=L))))
        out.append(("load-stream:%s" % ln, "text", lambda i, k, L=L: summarize(yaml.load(io.StringIO(TEXTS[i]), Loader=L))))
    # user subclasses that use path resolvers (their resolver stacks are per-instance state)
    path_pairs = [("PathLoader", yaml.SafeLoader, "PathDumper", yaml.SafeDumper)]
    if yaml.__with_libyaml__:
        path_pairs.append(("CPathLoader", yaml.CSafeLoader, "CPathDumper", yaml.CSafeDumper))
    for lname, lbase, dname, dbase in path_pairs:
        PathLoader = type(lname, (lbase,), {})
        PathLoader.add_path_resolver("!at-a", ["a"], dict)
        PathLoader.add_path_resolver("!item", [None], str)
        PathLoader.add_path_resolver("!deep", [None, None, None])
        PathDumper = type(dname, (dbase,), {})
        PathDumper.add_path_resolver("!at-a", ["a"], dict)
        PathDumper.add_path_resolver("!item", [None], str)
        # ... and implicit resolvers of their own: one for any first character (the documented default first=None), one for a
        # single first character
        import re as _re
        for C_ in (PathLoader, PathDumper):
            C_.add_implicit_resolver("!version", _re.compile(r"^v[0-9]+$"), None)
            C_.add_implicit_resolver("!percent", _re.compile(r"^%[a-z]+$"), ["%"])
        APP_CLASSES[lname] = PathLoader
        APP_CLASSES[dname] = PathDumper
        out.append(("compose_all:%s" % lname, "text", lambda i, k, L=PathLoader: consume(yaml.compose_all(TEXTS[i], Loader=L), k)))
        out.append(("load:%s" % lname, "text", lambda i, k, L=PathLoader: summarize(yaml.load(TEXTS[i], Loader=L))))
        out.append(("load_all:%s" % lname, "text", lambda i, k, L=PathLoader: consume(yaml.load_all(TEXTS[i], Loader=L), k)))
        out.append(("parse:%s" % lname, "text", lambda i, k, L=PathLoader: consume(yaml.parse(TEXTS[i], Loader=L), k)))
        out.append(("dump:%s" % dname, "value", lambda i, k, D=PathDumper: yaml.dump(vals[i], Dumper=D)))
        out.append(("dump_all:%s" % dname, "value", lambda i, k, D=PathDumper: yaml.dump_all([vals[i], vals[(i + 1) % len(vals)], vals[i]], Dumper=D)))
        out.append(("serialize:%s" % dname, "text", lambda i, k, D=PathDumper: yaml.serialize_all(list(yaml.compose_all(TEXTS[i])), Dumper=D)))
    out.append(("safe_load", "text", lambda i, k: summarize(yaml.safe_load(TEXTS[i]))))
    out.append(("full_load_all", "text", lambda i, k: consume(yaml.full_load_all(TEXTS[i]), k)))
    for dn in dumper_classes(yaml):
        D = getattr(yaml, dn)
        for oi, opts in enumerate(DUMP_OPTS):
            out.append(("dump:%s:%d" % (dn, oi), "value", lambda i, k, D=D, opts=opts: yaml.dump(vals[i], Dumper=D, **opts)))
        out.append(("dump_all:%s" % dn, "value", lambda i, k, D=D: yaml.dump_all([vals[i], vals[(i + 1) % len(vals)], vals[i]], Dumper=D)))
        out.append(("dump-to-stream:%s" % dn, "value", lambda i, k, D=D: _to_stream(yaml, vals[i], D)))
        for oi, opts in enumerate([{}, {"allow_unicode": True}, {"canonical": True}, {"width": 5, "indent": 3}]):
            out.append(("emit:%s:%d" % (dn, oi), "events", lambda i, k, D=D, opts=opts: yaml.emit(_fresh_events(yaml, i), Dumper=D, **opts)))
        out.append(("serialize:%s" % dn, "text", lambda i, k, D=D: yaml.serialize_all(list(yaml.compose_all(TEXTS[i])), Dumper=D)))
    out.append(("safe_dump", "value", lambda i, k: yaml.safe_dump(vals[i])))
    return out


def _to_stream(yaml, v, D):
    s = io.StringIO()
    yaml.dump(v, s, Dumper=D)
    return s.getvalue()


def _fresh_events(yaml, i):
    return event_lists()[i]


def counts():
    return {"text": len(TEXTS), "value": len(values()), "events": 4}


def run_call(yaml, catalogue, ci, ii, k):
    """-> ("ok", summary) | ("exc", class name, message)"""
    name, kind, fn = catalogue[ci]
    try:
        return ("ok", fn(ii, k))
    except RecursionError as e:
        return ("exc", "RecursionError", "")
    except Exception as e:
        return ("exc", type(e).__name__, str(e))


APP_CLASSES = {}        # application classes of the catalogue (their class-level tables are library-level state as well)


def fingerprint(yaml):
    """Address-free digest of every module-level and class-level container of the yaml package."""
    import hashlib
    import re
    import sys
    import types
    h = hashlib.blake2b(digest_size=16)
    pat = type(re.compile(""))

    def enc(v, depth=0):
        if depth > 6:
            return "<deep>"
        if isinstance(v, dict):
            return "{" + ",".join("%s:%s" % (enc(k, depth + 1), enc(x, depth + 1)) for k, x in v.items()) + "}"
        if isinstance(v, (list, tuple)):
            return "[" + ",".join(enc(x, depth + 1) for x in v) + "]"
        if isinstance(v, (set, frozenset)):
            return "set(" + ",".join(sorted(enc(x, depth + 1) for x in v)) + ")"
        if isinstance(v, pat):
            return "re(%r,%d)" % (v.pattern, v.flags)
        if isinstance(v, (str, bytes, int, float, bool, type(None))):
            return repr(v)
        if isinstance(v, (types.FunctionType, types.BuiltinFunctionType, types.MethodType, type, classmethod, staticmethod)):
            return "fn:" + getattr(v, "__qualname__", getattr(getattr(v, "__func__", None), "__qualname__", type(v).__name__))
        if isinstance(v, types.ModuleType):
            return "mod:" + v.__name__
        return "obj:" + type(v).__name__
    for mname in sorted(m for m in sys.modules if m == "yaml" or m.startswith("yaml.")):
        mod = sys.modules[mname]
        if mod is None or mname == "yaml._yaml":
            continue
        for gname in sorted(vars(mod)):
            if gname.startswith("__"):
                continue
            g = vars(mod)[gname]
            if isinstance(g, type) and getattr(g, "__module__", "").startswith("yaml"):
                for aname in sorted(vars(g)):
                    if aname.startswith("__") and aname not in ("__slots__",):
                        continue
                    a = vars(g)[aname]
                    if isinstance(a, (dict, list, set, tuple, pat, str, int, type(None))):
                        h.update(("%s.%s.%s=%s\n" % (mname, gname, aname, enc(a))).encode("utf-8", "backslashreplace"))
                    else:
                        h.update(("%s.%s.%s:%s\n" % (mname, gname, aname, enc(a))).encode("utf-8", "backslashreplace"))
            elif isinstance(g, (dict, list, set, tuple, pat, str, int, float, type(None))):
                h.update(("%s.%s=%s\n" % (mname, gname, enc(g))).encode("utf-8", "backslashreplace"))
            else:
                h.update(("%s.%s:%s\n" % (mname, gname, enc(g))).encode("utf-8", "backslashreplace"))
    for cname in sorted(APP_CLASSES):
        for aname in sorted(vars(APP_CLASSES[cname])):
            if aname.startswith("__"):
                continue
            h.update(("app.%s.%s=%s\n" % (cname, aname, enc(vars(APP_CLASSES[cname])[aname]))).encode("utf-8", "backslashreplace"))
    return h.hexdigest()
