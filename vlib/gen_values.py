"""Generators for the safe value universe, strings and dump options (DESIGN 2.6).

Everything is built by construction (no filter/assume on the hot path)."""
import datetime
from hypothesis import strategies as st

NEL, LS, PS, BOM, NBSP = "\x85", "\u2028", "\u2029", "\ufeff", "\xa0"

WORDS = ["a", "b", "word", "foo", "bar", "baz", "lorem", "ipsum", "x" * 7, "y" * 12, "z" * 30]
INDICATORS = list("-?:,[]{}#&*!|>'\"%@`")
LOOKALIKES = ["yes", "No", "TRUE", "off", "on", "y", "n", "~", "null", "Null", "NULL", "", "1:30", "-1:30:05",
              "190:20:30.15", "<<", "=", "0x1F", "0o7", "010", "0b101", "0b_", "0x_", "1_000", "1e3", "1.0e+3",
              "1.5", ".5", "5.", "+.inf", "-.INF", ".NaN", ".inf", "2001-01-01", "2001-01-01 10:00:00",
              "2001-01-01T10:00:00.5Z", "2001-12-14t21:59:43.10-05:00", "2001-13-01", "---", "...", "--- a",
              "... ", "- a", "? a", ": a", "a: b", "a #b", "a:b", "#a", "&a", "*a", "!a", "!!str", "|", ">",
              "%TAG", "%YAML 1.1", "@a", "`a", "{a}", "[a]", "a, b", "'", "\"", "\\", "\\n", "0", "-0", "+1",
              "1.", "-.5", "1e5", "0.0", "12e03", "-", "?", ":", ".", "..", "_", "+", "true", "false", "Yes"]
# an indicator INSIDE a word (not leading, not followed by a space): plain in block context, not always in flow context
INNER = ["a?b", "why?not", "a,b", "a[b", "a]b", "a{b", "a}b", "x:y", "a#b", "a&b", "a*b", "a!b", "a|b", "a>b", "a%b", "a@b", "a`b",
         "a-b", "a?", "a:", "a,", "a[", "a]", "a{", "a}", "a# b", "a ?b", "a? b", "a\"b", "a'b", "a\\b", "a=b", "a<b"]
BREAKS = ["\n", "\n", "\n", "\r", "\r\n", NEL, LS, PS]
SPECIAL_CH = ["\t", " ", "  ", BOM, NBSP, "\x00", "\x01", "\x07", "\x1b", "\x7f", "\x80", "\x84", "\x86", "\x9f",
              "\ufffe", "\uffff", "\ud7ff", "\ue000", "\ufffd", "\U00010000", "\U0001F600", "\U0010ffff",
              "\U0010fffe", "\xe9", "\u65e5\u672c", "\xff", "\u0100"]


def any_char():
    return st.characters(exclude_categories=("Cs",))


def atom():
    return st.one_of(
        st.sampled_from(WORDS), st.sampled_from(WORDS),
        st.sampled_from([" ", " ", " ", "  ", "   "]),
        st.sampled_from(BREAKS),
        st.sampled_from(INDICATORS),
        st.sampled_from(INDICATORS).map(lambda c: c + " "),
        st.sampled_from(INDICATORS).map(lambda c: " " + c),
        st.sampled_from(LOOKALIKES),
        st.sampled_from(SPECIAL_CH),
        st.sampled_from(INNER),
        any_char(),
    )


def generic_text(max_atoms=12):
    return st.lists(atom(), max_size=max_atoms).map("".join)


def _line(max_words):
    # words separated by single spaces, optionally starting with spaces (more-indented line)
    return st.tuples(st.sampled_from(["", "", " ", "  ", "    "]),
                     st.lists(st.sampled_from(WORDS), min_size=1, max_size=max_words),
                     st.sampled_from(["", "", "", " ", "  "])).map(lambda t: t[0] + " ".join(t[1]) + t[2])


def folded_shape_text():
    """Several lines; some long, some more-indented, some blank: the shapes that matter for
    folding (fold points, more-indented lines, leading/trailing blank lines)."""
    return st.tuples(st.lists(st.one_of(_line(14), _line(3), st.just(""), st.just(" ")), min_size=1, max_size=6),
                     st.sampled_from(["\n", "\n", "\n", "\n", NEL, LS, PS, "\r\n", "\r"]),
                     st.sampled_from(["", "", "\n", "\n\n"])).map(lambda t: t[1].join(t[0]) + t[2])


# words that mean something at the START of a line (document markers, indicators, directive look-alikes): inside a long
# plain or folded scalar the writer may fold the line right in front of one of them
LINE_START_WORDS = ["...", "---", "-", "?", "%YAML", "%TAG", "&a", "*a", "!a", "|", ">", "- -", "....", "----", "#"]


def long_words_text():
    plain_words = st.lists(st.sampled_from(WORDS + ["\xe9t\xe9", "日本語"]), min_size=8, max_size=40).map(" ".join)
    with_markers = st.lists(st.one_of(st.sampled_from(WORDS[:8]), st.sampled_from(WORDS[:8]), st.sampled_from(LINE_START_WORDS[:12])),
                            min_size=6, max_size=30).map(" ".join)
    return st.one_of(plain_words, with_markers)


def edge_text():
    """Leading/trailing space or break, break+space, space+break."""
    mid = generic_text(5)
    edge = st.sampled_from(["", " ", "  ", "\n", "\n\n", " \n", "\n ", "\t", NEL, LS, PS, "\r", BOM, "\n \n"])
    return st.tuples(edge, mid, edge).map("".join)


def inner_indicator_text():
    """Short strings that are plain-safe except for one indicator inside a word; alone and as a few space-separated words."""
    return st.lists(st.one_of(st.sampled_from(INNER), st.sampled_from(INNER), st.sampled_from(WORDS)), min_size=1, max_size=3).map(" ".join)


def text(max_atoms=12):
    return st.one_of(inner_indicator_text(), generic_text(max_atoms), generic_text(max_atoms), folded_shape_text(), long_words_text(),
                     edge_text(), st.sampled_from(LOOKALIKES), st.text(max_size=20))


def key_text():
    return st.one_of(st.sampled_from(WORDS), st.sampled_from(INNER), st.sampled_from(LOOKALIKES), generic_text(4), text(6),
                     st.sampled_from(["k" * 127, "k" * 128, "k" * 129, "k " * 70, "a\nb", "a\n\nb\n"]),
                     # keys whose *written* length differs a lot from their length: every character becomes an escape
                     st.tuples(st.sampled_from(["\U0001F600", "\u65e5", "\xe9", "\x07", "\x85", "\ufeff", "\U0010ffff"]),
                               st.integers(95, 130)).map(lambda t: t[0] * t[1]))


# ---------------------------------------------------------------------------------------------
# scalars

def ints():
    return st.one_of(st.integers(-1000, 1000), st.integers(-2**63 - 2, 2**63 + 2), st.integers(-2**70, 2**70),
                     st.sampled_from([0, -1, 2**31, 2**63, -2**63, 10**30, -10**100, 10**1000, 59, 60, 3600, 86399]))


def floats():
    return st.one_of(st.floats(allow_nan=True, allow_infinity=True),
                     st.sampled_from([0.0, -0.0, 1.0, -1.5, 1e16, 1e17, 1e-5, 1e22, 1.5e300, 5e-324, 2.2250738585072014e-308,
                                      float("inf"), float("-inf"), float("nan"), 0.1, 1e15, 123456789012345680.0, 1e100,
                                      3.14, 60.0, 1.0e-10, 685230.15]))


def dates():
    return st.dates(min_value=datetime.date(1, 1, 1), max_value=datetime.date(9999, 12, 31))


def tzinfos(allow_seconds=False):
    mins = st.one_of(st.sampled_from([0, 60, -60, 330, -330, 345, 1439, -1439, 5, -5, 30]), st.integers(-1439, 1439))
    if allow_seconds:
        return st.one_of(mins.map(lambda m: datetime.timezone(datetime.timedelta(minutes=m))),
                         st.integers(-86399, 86399).map(lambda s: datetime.timezone(datetime.timedelta(seconds=s))))
    return mins.map(lambda m: datetime.timezone(datetime.timedelta(minutes=m)))


def datetimes(allow_seconds_tz=False):
    naive = st.datetimes(min_value=datetime.datetime(1, 1, 2), max_value=datetime.datetime(9999, 12, 30, 23, 59, 59, 999999))
    return st.one_of(
        naive,
        naive.map(lambda d: d.replace(microsecond=0)),
        st.tuples(naive, tzinfos(allow_seconds_tz)).map(lambda t: t[0].replace(tzinfo=t[1])),
        st.tuples(naive, st.sampled_from([0, 1, 10, 100, 1000, 500000, 999999, 123000])).map(
            lambda t: t[0].replace(microsecond=t[1])))


def binaries():
    return st.one_of(st.binary(max_size=30), st.sampled_from([b"", b"\x00", b"abc", b"\xff" * 60, bytes(range(256))]))


def scalars(texts=None):
    texts = texts if texts is not None else text()
    return st.one_of(st.none(), st.booleans(), ints(), floats(), texts, texts, texts, binaries(), dates(), datetimes())


def keys(texts=None):
    texts = texts if texts is not None else key_text()
    return st.one_of(st.none(), st.booleans(), ints(), st.floats(allow_nan=False), texts, texts, texts, binaries(),
                     dates(), datetimes())


# ---------------------------------------------------------------------------------------------
# value graphs by construction: a "blueprint" is plain data; build() makes the object graph,
# including shared and recursive containers.  Blueprints:
#   ("s", scalar) | ("l", [bp...]) | ("d", [(keybp, bp)...]) | ("set", [keybp...]) | ("ref", n)
# ("ref", n) refers to the n-th container opened so far (mod count), in pre-order: it may be a
# finished sibling (DAG sharing) or an ancestor (recursion).

def blueprints(max_leaves=25, texts=None, keytexts=None, allow_refs=True):
    leaf = scalars(texts).map(lambda v: ("s", v))
    keyleaf = keys(keytexts).map(lambda v: ("s", v))
    ref = st.integers(0, 50).map(lambda n: ("ref", n))

    def extend(children):
        kids = st.one_of(children, children, ref) if allow_refs else children
        return st.one_of(
            st.lists(kids, max_size=5).map(lambda l: ("l", l)),
            st.lists(st.tuples(keyleaf, kids), max_size=5).map(lambda l: ("d", l)),
            st.lists(keyleaf, max_size=5).map(lambda l: ("set", l)),
        )
    return st.recursive(leaf, extend, max_leaves=max_leaves)


def build(bp):
    """Build the object graph of a blueprint; returns (obj, info) where info counts sharing."""
    containers = []
    info = {"refs": 0, "recursive": 0, "containers": 0, "nodes": 0}
    open_ids = set()

    def go(b):
        info["nodes"] += 1
        kind = b[0]
        if kind == "s":
            return b[1]
        if kind == "ref":
            if not containers:
                return None
            info["refs"] += 1
            c = containers[b[1] % len(containers)]
            if id(c) in open_ids:
                info["recursive"] += 1
            return c
        info["containers"] += 1
        if kind == "l":
            out = []
            containers.append(out)
            open_ids.add(id(out))
            for c in b[1]:
                out.append(go(c))
            open_ids.discard(id(out))
            return out
        if kind == "d":
            out = {}
            containers.append(out)
            open_ids.add(id(out))
            for k, v in b[1]:
                out[go(k)] = go(v)
            open_ids.discard(id(out))
            return out
        if kind == "set":
            out = set()
            containers.append(out)
            for k in b[1]:
                out.add(go(k))
            return out
        raise AssertionError(kind)
    obj = go(bp)
    return obj, info


def values(**kw):
    return blueprints(**kw)


# ---------------------------------------------------------------------------------------------
# dump options

def tag_maps(allow_redefine=True, allow_nonascii=True):
    opts = [None, None, None, {"!e!": "tag:example.com,2000:"}, {"!e!": "!my-", "!f!": "tag:f.org,2001:x/"}]
    if allow_redefine:
        opts += [{"!!": "tag:example.com,2000:"}, {"!": "!my-"}]
    if allow_nonascii:
        opts += [{"!e!": "tag:\xe9x.org,2000:"}]
    return st.sampled_from(opts)


def dump_options(c_safe=False, tags=True):
    """Full option product; each key optional so that defaults are exercised."""
    fields = {
        "default_style": st.sampled_from([None, '"', "'", "|", ">"]),
        "default_flow_style": st.sampled_from([True, False, None]),
        "canonical": st.sampled_from([None, True, False]),
        "indent": st.one_of(st.none(), st.integers(0, 12)),
        "width": st.sampled_from([None, 0, 1, 2, 5, 10, 20, 40, 80, 1000]),
        "allow_unicode": st.sampled_from([None, True, False]),
        "line_break": st.sampled_from([None, "\n", "\r", "\r\n"]),
        "encoding": st.sampled_from([None, "utf-8", "utf-16-le", "utf-16-be"]),
        "explicit_start": st.sampled_from([None, True, False]),
        "explicit_end": st.sampled_from([None, True, False]),
        "version": st.sampled_from([None, (1, 1), (1, 2)]),
        "sort_keys": st.booleans(),
    }
    if tags:
        fields["tags"] = tag_maps()
    return st.one_of(st.just({}), st.fixed_dictionaries({}, optional=fields))
