"""Coverage-guided (grey-box) input search that lives inside the shard runner.

A campaign is an *enumerator* of an Arm: it yields one candidate text at a time; the runner evaluates the candidate with the
check's own oracle; when the generator is resumed it looks at what that evaluation covered and keeps the candidate in the
corpus when it reached something new.  So the semantic oracle sits inside the fuzz loop (a target that only waits for crashes
checks nothing of the property), and no input is executed twice.

Feedback (all deterministic functions of the code under test and the candidate):
  * lines of <repo>/lib/yaml/*.py executed for the first time in this campaign - sys.monitoring LINE events whose callback
    returns DISABLE, so a line costs one callback in the whole campaign and nothing afterwards (branch events cannot be
    disabled per direction in CPython 3.12 and cost a factor of ten; measured);
  * token-kind trigrams of the pure-Python scanner and the (class, problem, context) of the error it ends with - a cheap
    stand-in for "state" coverage of a hand-written scanner whose lines are all reached very early.

Mutations are text-level havoc (delete / duplicate / swap ranges, dictionary insertion, line re-indentation, line
duplication / joining, run-length blow-up, splice with another corpus entry) with a YAML dictionary.  Half of the shards
start from a small seed corpus taken from the repository's own test data, the other half from the empty corpus.
The only source of randomness is random.Random(seed) with the shard seed derived from VERIF_SEED; a failing candidate is
saved by the runner as a replay file (the reproducible unit, as with libFuzzer) and minimised by ddmin().
"""
import glob
import os
import random
import sys

from vlib import runner

DICTIONARY = [
    "- ", ": ", "? ", "[", "]", "{", "}", ", ", ",", "#", " #", "&a ", "*a", "&b", "*b", "!!str ", "!!int ", "!!map", "!!seq", "!t ", "! ",
    "!<x> ", "!e!x ", "|", ">", "|-", ">+", "|2", ">1-", "|+1", "'", '"', "''", '\\"', "\\x41", "\\u263A", "\\U0001F600", "\\n", "\\\n",
    "\\ ", "\\N", "\\_", "\\L", "\\P", "\\0", "\\e", "%YAML 1.1\n", "%YAML 1.2\n", "%TAG !e! tag:e,2000:\n", "%TAG ! !x-\n", "%FOO bar\n",
    "---", "--- ", "---\n", "...", "...\n", "\n", "\n\n", "\n  ", "\n    ", "\n- ", "\n? ", "\n: ", "\r\n", "\r", "\t", " \t", "\x85",
    "\u2028", "\u2029", "\ufeff", "\xa0", "<<", "<<: ", "=", "~", "null", "yes", "No", "0x1F", "0o17", "0b1", "1_000", "1:30", "1:30.5",
    ".inf", "-.INF", ".NaN", "1e3", "1.5", "2001-01-01", "2001-01-01 10:00:00.5 +01:30", "!!binary ", "!!set ", "!!omap ", "!!pairs ",
    "!!timestamp ", "!!bool ", "!!float ", "!!null ", "!!merge ", "!!value ", "a", "b", "k", "key", "a b", "word word word",
    "\U0001F600", "é", "中", "́", "%41", "%C3%A9", "tag:yaml.org,2002:", "@", "`", "%", "|\n  ", ">\n  ", ": |\n    ",
    "\xb2", "\u0663", "\uff11", "\u2460", "|\xb2", "%YAML 1.\u0661\n", "\\x\uff11\uff11", "- - ", "- ? ", "? - ", "- k: ", "? [", ": [", "[ ", " ]", "{ ", " }", "a: 1\n", "- a\n", "&a [*a]", "[a, b]", "{a: b}", "? a\n: b\n",
]


def seed_corpus():
    d = os.path.join(runner.REPO, "tests", "legacy_tests", "data")
    out = []
    for pat in ("spec-02-*.data", "spec-07-*.data", "spec-09-1*.data", "construct-*.data", "*.loader-error", "scan-*.data"):
        for p in sorted(glob.glob(os.path.join(d, pat))):
            try:
                t = open(p, encoding="utf-8").read()
            except (UnicodeDecodeError, OSError):
                continue
            if 0 < len(t) <= 300:
                out.append(t)
    return out[:120]


class Coverage:
    TOOL = 3

    def __init__(self):
        self.lib = os.path.realpath(os.path.join(runner.REPO, "lib", "yaml")) + os.sep
        self.fresh = 0
        self.lines = 0
        self._known_files = {}

    def _line(self, code, line):
        f = code.co_filename
        ok = self._known_files.get(f)
        if ok is None:
            ok = self._known_files[f] = os.path.realpath(f).startswith(self.lib)
        if ok:
            self.fresh += 1
            self.lines += 1
        return sys.monitoring.DISABLE

    def start(self):
        mon = sys.monitoring
        try:
            mon.use_tool_id(self.TOOL, "verif-greybox")
        except ValueError:
            mon.free_tool_id(self.TOOL)
            mon.use_tool_id(self.TOOL, "verif-greybox")
        mon.register_callback(self.TOOL, mon.events.LINE, self._line)
        mon.set_events(self.TOOL, mon.events.LINE)

    def stop(self):
        mon = sys.monitoring
        mon.set_events(self.TOOL, 0)
        mon.register_callback(self.TOOL, mon.events.LINE, None)
        mon.free_tool_id(self.TOOL)


def scan_features(text):
    """Token-kind trigrams and the final error signature of the pure-Python scanner + parser."""
    import yaml
    feats = set()
    ids = ["^", "^"]
    try:
        for t in yaml.scan(text, Loader=yaml.Loader):
            ids.append(type(t).__name__[:-5] + (":" + t.style if getattr(t, "style", None) else ""))
            feats.add(("t", ids[-3], ids[-2], ids[-1]))
    except yaml.YAMLError as e:
        feats.add(("se", type(e).__name__, getattr(e, "problem", None) and str(e.problem)[:40], getattr(e, "context", None) and str(e.context)[:40], ids[-1]))
    except Exception as e:
        feats.add(("sx", type(e).__name__))
    ev = ["^"]
    try:
        for e in yaml.parse(text, Loader=yaml.Loader):
            ev.append(type(e).__name__[:-5] + (":%s%s%s" % (getattr(e, "style", None) or getattr(e, "flow_style", None) or "", "&" if getattr(e, "anchor", None) else "",
                                                           "!" if getattr(e, "tag", None) else "")))
            feats.add(("e", ev[-2], ev[-1]))
    except yaml.YAMLError as e:
        feats.add(("pe", type(e).__name__, getattr(e, "problem", None) and str(e.problem)[:40], getattr(e, "context", None) and str(e.context)[:40], ev[-1]))
    except Exception as e:
        feats.add(("px", type(e).__name__))
    return feats


def mutate(rng, text, corpus, max_len):
    n_ops = rng.choice((1, 1, 1, 2, 2, 3, 4, 6))
    for _ in range(n_ops):
        op = rng.randrange(14)
        L = len(text)
        i = rng.randrange(L + 1)
        j = min(L, i + rng.choice((1, 1, 1, 2, 3, 5, 8, 16)))
        if op == 0:
            text = text[:i] + text[j:]
        elif op == 1:
            text = text[:j] + text[i:j] + text[j:]
        elif op in (2, 3, 4):
            text = text[:i] + rng.choice(DICTIONARY) + text[i:]
        elif op == 5:
            text = text[:i] + rng.choice(DICTIONARY) + text[j:]
        elif op == 6 and L:
            k = rng.randrange(L + 1)
            l = min(L, k + (j - i))
            if j <= k:
                text = text[:i] + text[k:l] + text[j:k] + text[i:j] + text[l:]
        elif op == 7:
            lines = text.split("\n")
            k = rng.randrange(len(lines))
            d = rng.choice((-2, -1, 1, 2, 4))
            lines[k] = (" " * d + lines[k]) if d > 0 else lines[k][min(-d, len(lines[k]) - len(lines[k].lstrip(" "))):]
            text = "\n".join(lines)
        elif op == 8:
            lines = text.split("\n")
            k = rng.randrange(len(lines))
            lines.insert(k, lines[k])
            text = "\n".join(lines)
        elif op == 9:
            lines = text.split("\n")
            if len(lines) > 1:
                k = rng.randrange(len(lines) - 1)
                lines[k:k + 2] = [lines[k] + rng.choice(("", " ", ": ", ", ")) + lines[k + 1].lstrip(" ")]
            text = "\n".join(lines)
        elif op == 10 and L:
            i = min(i, L - 1)
            text = text[:i] + text[i] * rng.choice((2, 3, 8, 33, 64)) + text[i + 1:]
        elif op == 11 and corpus:
            other = rng.choice(corpus)
            k = rng.randrange(len(other) + 1)
            text = text[:i] + other[k:]
        elif op == 12 and corpus:
            other = rng.choice(corpus)
            k = rng.randrange(len(other) + 1)
            l = min(len(other), k + rng.choice((2, 4, 8, 16, 32)))
            text = text[:i] + other[k:l] + text[i:]
        elif op == 13 and L:
            i = min(i, L - 1)
            c = ord(text[i])
            c2 = rng.choice((c ^ 0x20, c + 1, c - 1, rng.choice((0x9, 0x20, 0x2d, 0x3a, 0x7e, 0x85, 0xa0, 0x2028, 0xfeff, 0x1F600, 0x7f, 0x0, 0xfffe))))
            if 0 <= c2 < 0x110000 and not 0xD800 <= c2 < 0xE000:
                text = text[:i] + chr(c2) + text[i + 1:]
    return text[:max_len]


def campaign(shard, nshards, tier, prop, arm, quick, thorough, wrap=None, max_len=240, stats=None, valid_only=False, extra_seeds=()):
    """Generator of candidate cases for one shard.  `wrap(text)` turns a candidate into the check's case shape.
    valid_only: only texts the pure-Python scanner and parser accept enter the corpus (for arms whose oracle starts from a loaded
    value or a parsed event stream; rejected candidates are still evaluated - and counted as such - but never bred)."""
    n = (thorough if tier == "thorough" else quick)
    scale = float(os.environ.get("VERIF_SCALE", "1") or "1")
    if scale != 1:
        n = max(20 * nshards, int(n * scale))
    per = (n + nshards - 1) // nshards
    base = int(os.environ.get("VERIF_SEED", "1") or "1")
    rng = random.Random(runner.shard_seed(base, prop, arm, shard))
    wrap = wrap or (lambda t: t)
    cov = Coverage()
    feats = set()
    corpus = []
    seeds = seed_corpus() if shard % 2 == 0 else []
    rng.shuffle(seeds)
    # extra_seeds: a few small texts of the shape the arm's oracle is about (every shard, also the empty-corpus ones: without them
    # a campaign under an oracle about aliases or merge keys spends its budget on texts the oracle only counts)
    queue = list(seeds[:40]) + list(extra_seeds) + ["", "a", "- a\n", "a: b\n"]
    cov.start()
    try:
        done = 0
        while done < per:
            if queue:
                cand = queue.pop()
            else:
                parent = rng.choice(corpus[-24:]) if (corpus and rng.random() < 0.5) else (rng.choice(corpus) if corpus else "")
                cand = mutate(rng, parent, corpus, max_len)
            cov.fresh = 0
            yield wrap(cand)
            done += 1
            new = cov.fresh > 0
            f = scan_features(cand)
            if not f <= feats:
                feats |= f
                new = True
            if new and len(cand) <= max_len and not (valid_only and any(x[0] in ("se", "sx", "pe", "px") for x in f)):
                corpus.append(cand)
        if stats is not None:
            stats.update(corpus=len(corpus), lines=cov.lines, features=len(feats))
    finally:
        cov.stop()


def ddmin(case_text, still_fails, budget=400):
    """Greedy chunk / character removal keeping `still_fails(text)` true (at most `budget` evaluations)."""
    text = case_text
    calls = 0
    chunk = max(1, len(text) // 2)
    while chunk >= 1 and calls < budget:
        i = 0
        changed = False
        while i < len(text) and calls < budget:
            cand = text[:i] + text[i + chunk:]
            calls += 1
            if cand != text and still_fails(cand):
                text = cand
                changed = True
            else:
                i += chunk
        if not changed or chunk == 1:
            chunk //= 2
    return text
