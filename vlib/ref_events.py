"""Reference acceptors for the documented token grammar (parser.py docstring) and the event grammar
(emitter/composer grammar).  Written independently of yaml/parser.py: a predictive recursive-descent
recogniser over token *kinds* that also derives the event kinds the grammar implies.

Token kinds (short names):
  SS SE DIR DS DE BSS BMS BE FSS FMS FSE FME BEN FEN KEY VAL ALI ANC TAG SCA
"""

TOKEN_KIND = {
    "StreamStartToken": "SS", "StreamEndToken": "SE", "DirectiveToken": "DIR", "DocumentStartToken": "DS",
    "DocumentEndToken": "DE", "BlockSequenceStartToken": "BSS", "BlockMappingStartToken": "BMS", "BlockEndToken": "BE",
    "FlowSequenceStartToken": "FSS", "FlowMappingStartToken": "FMS", "FlowSequenceEndToken": "FSE",
    "FlowMappingEndToken": "FME", "BlockEntryToken": "BEN", "FlowEntryToken": "FEN", "KeyToken": "KEY", "ValueToken": "VAL",
    "AliasToken": "ALI", "AnchorToken": "ANC", "TagToken": "TAG", "ScalarToken": "SCA",
}

EVENT_KIND = {
    "StreamStartEvent": "SS", "StreamEndEvent": "SE", "DocumentStartEvent": "DS", "DocumentEndEvent": "DE",
    "ScalarEvent": "SC", "AliasEvent": "AL", "SequenceStartEvent": "QS", "SequenceEndEvent": "QE",
    "MappingStartEvent": "MS", "MappingEndEvent": "ME",
}


class Reject(Exception):
    pass


class TokenGrammar:
    """accept(kinds) -> list of derived events [(kind, token_index or None)], or raises Reject."""

    def __init__(self, kinds, strict=False):
        self.strict = strict        # strict: a block mapping VALUE must follow a KEY (what both parsers implement)
        self.k = list(kinds)
        self.i = 0
        self.ev = []

    def peek(self):
        return self.k[self.i] if self.i < len(self.k) else None

    def take(self, kind):
        if self.peek() != kind:
            raise Reject("expected %s at %d, found %s" % (kind, self.i, self.peek()))
        self.i += 1
        return self.i - 1

    def empty_scalar(self):
        self.ev.append(("SC", None, None))

    # stream ::= STREAM-START implicit_document? explicit_document* STREAM-END
    def stream(self):
        self.take("SS")
        self.ev.append(("SS", None, None))
        if self.peek() not in ("DIR", "DS", "SE"):
            # implicit_document ::= block_node DOCUMENT-END*
            self.ev.append(("DS", None, None))
            self.block_node()
            self.document_end()
        while self.peek() != "SE":
            # explicit_document ::= DIRECTIVE* DOCUMENT-START block_node? DOCUMENT-END*
            if self.peek() is None:
                raise Reject("unexpected end of tokens")
            while self.peek() == "DIR":
                self.i += 1
            self.take("DS")
            self.ev.append(("DS", None, None))
            if self.peek() in ("DIR", "DS", "DE", "SE"):
                self.empty_scalar()
            else:
                self.block_node()
            self.document_end()
        self.take("SE")
        self.ev.append(("SE", None, None))
        if self.i != len(self.k):
            raise Reject("tokens after STREAM-END")
        return self.ev

    def document_end(self):
        while self.peek() == "DE":
            self.i += 1
        self.ev.append(("DE", None, None))

    def properties(self):
        anchor = None
        if self.peek() == "ANC":
            anchor = self.take("ANC")
            if self.peek() == "TAG":
                self.take("TAG")
            return True, anchor
        if self.peek() == "TAG":
            self.take("TAG")
            if self.peek() == "ANC":
                anchor = self.take("ANC")
            return True, anchor
        return False, None

    def node(self, block, indentless=False):
        if self.peek() == "ALI":
            self.ev.append(("AL", self.take("ALI"), None))
            return
        props, anchor = self.properties()
        t = self.peek()
        if indentless and t == "BEN":
            self.ev.append(("QS", None, anchor))
            self.indentless_sequence()
            self.ev.append(("QE", None, None))
        elif t == "SCA":
            self.ev.append(("SC", self.take("SCA"), anchor))
        elif t == "FSS":
            self.ev.append(("QS", None, anchor))
            self.flow_sequence()
            self.ev.append(("QE", None, None))
        elif t == "FMS":
            self.ev.append(("MS", None, anchor))
            self.flow_mapping()
            self.ev.append(("ME", None, None))
        elif block and t == "BSS":
            self.ev.append(("QS", None, anchor))
            self.block_sequence()
            self.ev.append(("QE", None, None))
        elif block and t == "BMS":
            self.ev.append(("MS", None, anchor))
            self.block_mapping()
            self.ev.append(("ME", None, None))
        elif props:
            self.ev.append(("SC", None, anchor))
        else:
            raise Reject("expected node content at %d, found %s" % (self.i, t))

    def block_node(self):
        self.node(True)

    def block_node_or_indentless_sequence(self):
        self.node(True, True)

    def flow_node(self):
        self.node(False)

    # block_sequence ::= BLOCK-SEQUENCE-START (BLOCK-ENTRY block_node?)* BLOCK-END
    def block_sequence(self):
        self.take("BSS")
        while self.peek() == "BEN":
            self.i += 1
            if self.peek() in ("BEN", "BE"):
                self.empty_scalar()
            else:
                self.block_node()
        self.take("BE")

    # indentless_sequence ::= (BLOCK-ENTRY block_node?)+
    def indentless_sequence(self):
        while self.peek() == "BEN":
            self.i += 1
            if self.peek() in ("BEN", "KEY", "VAL", "BE"):
                self.empty_scalar()
            else:
                self.block_node()

    # block_mapping ::= BLOCK-MAPPING_START ((KEY block_node_or_indentless_sequence?)?
    #                   (VALUE block_node_or_indentless_sequence?)?)* BLOCK-END
    def block_mapping(self):
        self.take("BMS")
        while self.peek() in ("KEY", "VAL"):
            if self.peek() == "KEY":
                self.i += 1
                if self.peek() in ("KEY", "VAL", "BE"):
                    self.empty_scalar()
                else:
                    self.block_node_or_indentless_sequence()
            elif self.strict:
                raise Reject("VALUE without KEY in a block mapping at %d" % self.i)
            else:
                self.empty_scalar()
            if self.peek() == "VAL":
                self.i += 1
                if self.peek() in ("KEY", "VAL", "BE"):
                    self.empty_scalar()
                else:
                    self.block_node_or_indentless_sequence()
            else:
                self.empty_scalar()
        self.take("BE")

    # flow_sequence ::= FLOW-SEQUENCE-START (flow_sequence_entry FLOW-ENTRY)* flow_sequence_entry? FLOW-SEQUENCE-END
    # flow_sequence_entry ::= flow_node | KEY flow_node? (VALUE flow_node?)?
    def flow_sequence(self):
        self.take("FSS")
        first = True
        while self.peek() != "FSE":
            if self.peek() is None:
                raise Reject("unterminated flow sequence")
            if not first:
                self.take("FEN")
                if self.peek() == "FSE":
                    break
            first = False
            if self.peek() == "KEY":
                self.i += 1
                self.ev.append(("MS", None, None))
                if self.peek() in ("VAL", "FEN", "FSE"):
                    self.empty_scalar()
                else:
                    self.flow_node()
                if self.peek() == "VAL":
                    self.i += 1
                    if self.peek() in ("FEN", "FSE"):
                        self.empty_scalar()
                    else:
                        self.flow_node()
                else:
                    self.empty_scalar()
                self.ev.append(("ME", None, None))
            else:
                self.flow_node()
        self.take("FSE")

    # flow_mapping ::= FLOW-MAPPING-START (flow_mapping_entry FLOW-ENTRY)* flow_mapping_entry? FLOW-MAPPING-END
    # flow_mapping_entry ::= flow_node | KEY flow_node? (VALUE flow_node?)?
    def flow_mapping(self):
        self.take("FMS")
        first = True
        while self.peek() != "FME":
            if self.peek() is None:
                raise Reject("unterminated flow mapping")
            if not first:
                self.take("FEN")
                if self.peek() == "FME":
                    break
            first = False
            if self.peek() == "KEY":
                self.i += 1
                if self.peek() in ("VAL", "FEN", "FME"):
                    self.empty_scalar()
                else:
                    self.flow_node()
                if self.peek() == "VAL":
                    self.i += 1
                    if self.peek() in ("FEN", "FME"):
                        self.empty_scalar()
                    else:
                        self.flow_node()
                else:
                    self.empty_scalar()
            else:
                self.flow_node()
                self.empty_scalar()
        self.take("FME")


def accept_tokens(kinds, strict=False):
    """-> (True, derived events) or (False, reason)."""
    g = TokenGrammar(kinds, strict)
    try:
        return True, g.stream()
    except Reject as e:
        return False, str(e)
    except RecursionError:
        raise


def accept_events(kinds):
    """Event grammar: stream ::= SS document* SE ; document ::= DS node DE ;
    node ::= SC | AL | QS node* QE | MS (node node)* ME.  -> None or reason."""
    k = list(kinds)
    n = len(k)
    if n < 2 or k[0] != "SS" or k[-1] != "SE":
        return "stream brackets missing"
    i = 1
    while i < n - 1:
        if k[i] != "DS":
            return "expected DS at %d, found %s" % (i, k[i])
        i += 1
        # exactly one node, iteratively with a stack
        stack = []
        done = False
        while not done:
            if i >= n - 1:
                return "document not closed"
            t = k[i]
            if t in ("SC", "AL"):
                i += 1
                if stack and stack[-1][0] == "M":
                    stack[-1][1] += 1
                if not stack:
                    done = True
            elif t == "QS":
                if stack and stack[-1][0] == "M":
                    stack[-1][1] += 1
                stack.append(["Q", 0])
                i += 1
            elif t == "MS":
                if stack and stack[-1][0] == "M":
                    stack[-1][1] += 1
                stack.append(["M", 0])
                i += 1
            elif t == "QE":
                if not stack or stack[-1][0] != "Q":
                    return "unbalanced sequence end at %d" % i
                stack.pop()
                i += 1
                if not stack:
                    done = True
            elif t == "ME":
                if not stack or stack[-1][0] != "M":
                    return "unbalanced mapping end at %d" % i
                if stack[-1][1] % 2:
                    return "mapping with a key but no value at %d" % i
                stack.pop()
                i += 1
                if not stack:
                    done = True
            else:
                return "unexpected %s inside a document at %d" % (t, i)
        if k[i] != "DE":
            return "expected DE at %d, found %s (exactly one node per document)" % (i, k[i])
        i += 1
    return None


def token_block_balance(kinds):
    """Invariants that hold for every input that scans (even if it does not parse): stream brackets once,
    block brackets balanced."""
    k = list(kinds)
    if not k or k[0] != "SS" or k[-1] != "SE":
        return "stream brackets missing"
    if k.count("SS") != 1 or k.count("SE") != 1:
        return "repeated stream bracket"
    # The scanner only unwinds block collections outside flow context; an input whose flow brackets are themselves
    # unbalanced scans (the scanner does not validate them) but cannot parse, and nothing is claimed for it here.
    flow = 0
    for t in k:
        if t in ("FSS", "FMS"):
            flow += 1
        elif t in ("FSE", "FME"):
            flow -= 1
            if flow < 0:
                return None
    if flow != 0:
        return None
    depth = 0
    flow = 0
    for i, t in enumerate(k):
        if t in ("FSS", "FMS"):
            flow += 1
        elif t in ("FSE", "FME"):
            flow -= 1
        elif t in ("BSS", "BMS"):
            depth += 1
        elif t == "BE":
            depth -= 1
            if depth < 0:
                return "BLOCK-END without block start at %d" % i
        elif t in ("DS", "DE") and flow > 0:
            # a document marker inside an open flow collection: the scanner cannot unwind the block collections around
            # it; such an input scans but cannot parse, and nothing is claimed for it
            return None
        elif t in ("DS", "DE") and depth != 0:
            return "document marker inside an open block collection at %d" % i
    if depth != 0:
        return "unclosed block collection at end of stream"
    return None
