"""Reference position arithmetic: index -> (line, column), by counting line breaks (C03/C09)."""
import bisect

BREAKS = "\n\x85\u2028\u2029"


class LineIndex:
    """Precomputed table so that many marks of the same text are cheap to check."""

    def __init__(self, text):
        self.text = text
        starts = [0]            # index of the first character of each line
        n = len(text)
        for i, ch in enumerate(text):
            if ch in BREAKS or (ch == "\r" and not (i + 1 < n and text[i + 1] == "\n")):
                starts.append(i + 1)
        self.starts = starts
        # positions of BOM characters (they do not advance the column)
        self.boms = [i for i, ch in enumerate(text) if ch == "\ufeff"]

    def line_col(self, index):
        line = bisect.bisect_right(self.starts, index) - 1
        start = self.starts[line]
        col = index - start
        if self.boms:
            col -= bisect.bisect_left(self.boms, index) - bisect.bisect_left(self.boms, start)
        return line, col


def line_col(text, index):
    return LineIndex(text).line_col(index)


def decode_like_reader(data):
    """What the reader decodes a byte input to (BOM-based detection), or None when it is not decodable."""
    import codecs
    try:
        if data.startswith(codecs.BOM_UTF16_LE):
            return data.decode("utf-16-le")
        if data.startswith(codecs.BOM_UTF16_BE):
            return data.decode("utf-16-be")
        return data.decode("utf-8")
    except UnicodeDecodeError:
        return None
