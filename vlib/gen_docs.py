"""Abstract YAML documents -> text + expected events (DESIGN 2.6, stage 1 and 2).

A case is plain data (picklable, hashable by repr):

  stream := {"docs": [doc...], "nl": break flavour, "bom": bool, "lead_comment": bool, "strip_final": bool}
  doc    := {"version": None|(1,1)|(1,2), "handles": [(handle, prefix)...], "explicit": bool, "end": bool,
             "inline": bool, "root": node}
  node   := ("s", props, style, text, r)       style in plain|sq|dq|lit|fold ; r = int driving render choices
          | ("q", props, flow, [node...], r)
          | ("m", props, flow, [(node, node)...], r)
          | ("a", n)
  props  := (anchor: bool, tagspec)
  tagspec:= None | ("!",) | ("h", handle, suffix) | ("v", uri)

render(stream) -> Rendered(text, events, doc_spans, features).  Expected events are tuples:
  ("SS",) ("SE",) ("DS", explicit, version, tags) ("DE", explicit)
  ("SC", anchor, tag, value, plain) ("AL", anchor) ("QS", anchor, tag, flow) ("QE",) ("MS", anchor, tag, flow) ("ME",)
The renderer degrades a requested scalar style to one that can legally carry the text in the given
context (plain -> single-quoted -> double-quoted), so every drawn tree renders to a valid document.
"""
import re

from hypothesis import strategies as st

DEFAULT_HANDLES = {"!": "!", "!!": "tag:yaml.org,2002:"}
NLS = ["\n", "\n", "\n", "\n", "\r\n", "\r", "\x85", "\u2028", "\u2029"]

PLAIN_VOCAB = ["a", "b", "foo", "bar baz", "1", "-1", "0x1F", "0o7", "010", "1_000", "1:30", "1.5", ".5", "1e3", "1.0e+3",
               ".inf", "-.INF", ".NaN", "yes", "No", "TRUE", "off", "~", "null", "Null", "2001-01-01",
               "2001-01-01 10:00:00", "2001-01-01T10:00:00.5Z", "<<", "=", "x y z", "a-b", "a.b", "http://x.y/z?q=1",
               "key with spaces", ".", "..", "_", "1_", "0b101", "+1", "12e03", "190:20:30", "v", "k", "word",
               "\xe9t\xe9", "日本", "\U0001F600", "a\xa0b", "p/q", "a+b", "$x", "(y)", "a;b", "x=y", "~x", "a'b", "a\"b",
               "a!b", "a&b", "a*b", "a|b", "a>b", "a%b", "a@b", "a`b", "a#b", "-a", "-1.5e-3", "0", "007", "0.", "+.inf",
               # characters a position counter might treat specially: zero-width, combining, wide, directional
               "a\u200bb", "z\u200dw\u200cj", "w\u2060j", "e\u0301", "\uff21\uff22", "\u202eabc", "a\u00adb", "\ufe0f x"]

_INDICATORS = set("-?:,[]{}#&*!|>'\"%@`")


def _printable(ch):
    o = ord(ch)
    return (ch == "\t" or 0x20 <= o <= 0x7e or o == 0x85 or 0xa0 <= o <= 0xd7ff or 0xe000 <= o <= 0xfffd and o != 0xfeff
            or 0x10000 <= o <= 0x10ffff)


def plain_ok(text, flow, key=False):
    """Conservative (portable) test that text can be written as a single-line plain scalar."""
    if not text or text[0] in " \t" or text[-1] in " \t":
        return False
    if text[0] in _INDICATORS:
        # '-', '?', ':' are fine when followed by a non-space character (not in flow context)
        if not (text[0] in "-?:" and len(text) > 1 and text[1] not in " \t" and not flow and text[:3] != "---"):
            return False
    if text.startswith("...") or text.startswith("---"):
        return False
    for i, ch in enumerate(text):
        if not _printable(ch) or ch in "\t\x85\ufeff" or ch in "\u2028\u2029":
            return False
        if ch == "#" and text[i - 1] == " ":
            return False
        if ch == ":":
            nxt = text[i + 1] if i + 1 < len(text) else ""
            if nxt in ("", " "):
                return False
            if flow and not nxt.isalnum():
                return False
        if flow and ch in ",?[]{}":
            return False
    return True


def sq_ok(text):
    for ch in text:
        if not _printable(ch) or ch in "\x85\u2028\u2029\ufeff\r":
            return False
        if ch == "\n":
            continue
    # breaks are written by folding: only between non-space characters
    for m in re.finditer("\n+", text):
        a, b = m.start(), m.end()
        if a == 0 or b == len(text) or text[a - 1] in " \t" or text[b] in " \t":
            return False
    return True


DQ_ESC = {"\0": "0", "\x07": "a", "\x08": "b", "\t": "t", "\n": "n", "\x0b": "v", "\x0c": "f", "\r": "r", "\x1b": "e",
          " ": " ", "\"": "\"", "\\": "\\", "\x85": "N", "\xa0": "_", "\u2028": "L", "\u2029": "P", "/": "/"}


class Rng:
    """Deterministic choice stream derived from the node's r field (pure function of the case)."""

    def __init__(self, seed):
        self.s = (seed * 2654435761 + 12345) & 0xffffffff

    def next(self, n):
        self.s = (self.s * 1103515245 + 12345) & 0x7fffffff
        return (self.s >> 8) % n if n > 0 else 0

    def chance(self, num, den):
        return self.next(den) < num


class Rendered:
    def __init__(self):
        self.text = ""
        self.events = []
        self.doc_spans = []
        self.features = set()


class _R:
    def __init__(self, stream, portable):
        self.nl = stream.get("nl", "\n")
        self.portable = portable
        self.out = Rendered()
        self.ev = self.out.events
        self.feat = self.out.features
        self.anchors = []
        self.handles = {}
        self.count = 0
        self.oneline = 0

    # ---- helpers
    def norm_break(self):
        return self.nl if self.nl in ("\u2028", "\u2029") else "\n"

    def fold_join(self):
        # what a single folded line break contributes
        return " " if self.norm_break() == "\n" else self.nl

    def comment(self, rng):
        if rng.chance(1, 8):
            self.feat.add("comment")
            return " #" + [" c", "", " : - [", " \xe9", "# x", " 'q"][rng.next(6)]
        return ""

    def resolve_tag(self, spec):
        """-> (source text, resolved tag)"""
        if spec is None:
            return None, None
        if spec[0] == "!":
            return "!", "!"
        if spec[0] == "v":
            return "!<%s>" % spec[1], _unescape_uri(spec[1])
        handle, suffix = spec[1], spec[2]
        table = dict(DEFAULT_HANDLES)
        table.update(self.handles)
        if handle not in table:
            handle = "!"
        return handle + suffix, table[handle] + _unescape_uri(suffix)

    def props(self, p):
        """-> (source text or '', anchor name, resolved tag)"""
        anchor_flag, spec = p
        parts = []
        name = None
        if anchor_flag:
            self.count += 1
            name = ["a%d", "A-%d", "z_%d", "Z9-%d_"][self.count % 4] % self.count      # every character class an anchor name may use
            parts.append("&" + name)
            self.feat.add("anchor")
        src, tag = self.resolve_tag(spec)
        if src is not None:
            parts.append(src)
            self.feat.add("tag")
        if len(parts) == 2 and (self.count + len(src)) % 2:
            parts.reverse()
        return " ".join(parts), name, tag

    # ---- scalars
    def scalar_style(self, style, text, flow, key, block_ok):
        if self.norm_break() != "\n" and (style in ("lit", "fold") or (style == "sq" and "\n" in text)):
            style = "dq"      # LS/PS breaks are not normalised to LF: keep them structural only
        if style in ("lit", "fold"):
            if block_ok and not flow and not key and block_text_ok(text):
                return style
            style = "dq"
        if style == "plain":
            if plain_ok(text, flow, key) or (text == "" and not flow and not key):
                return "plain"
            style = "sq"
        if style == "sq":
            if sq_ok(text) and not (key and "\n" in text):
                return "sq"
            style = "dq"
        return "dq"

    def flow_scalar_text(self, style, text, rng, cont_indent, key):
        """single/double-quoted source for text; may span lines when not a key."""
        nl = self.nl
        pad = nl + " " * (cont_indent or 1)
        if style == "sq":
            out = ["'"]
            i = 0
            while i < len(text):
                ch = text[i]
                if ch == "'":
                    out.append("''")
                elif ch == "\n":
                    j = i
                    while j < len(text) and text[j] == "\n":
                        j += 1
                    # k line feeds: one (folded-away) break plus k empty lines
                    out.append(nl * (j - i) + pad)
                    self.feat.add("quoted-multiline")
                    i = j
                    continue
                elif (ch == " " and not key and 0 < i < len(text) - 1 and text[i - 1] not in " \t\n" and text[i + 1] not in " \t\n"
                      and self.norm_break() == "\n" and rng.chance(1, 6)):
                    out.append(pad)
                    self.feat.add("quoted-multiline")
                else:
                    out.append(ch)
                i += 1
            out.append("'")
            return "".join(out)
        out = ['"']
        n = len(text)
        force = False
        for i, ch in enumerate(text):
            o = ord(ch)
            raw_ok = _printable(ch) and ch not in "\"\\\x85\u2028\u2029\ufeff\t\n"
            if ch == "\t":
                raw_ok = 0 < i < n - 1     # a tab inside the line is content; at the edges keep it escaped
            if ch == " " and (i == 0 or i == n - 1) and key is False and rng.chance(1, 2):
                raw_ok = False
            if ch == " " and not key and not force and 0 < i < n - 1 and text[i - 1] not in " \t\n" and text[i + 1] not in " \t\n" \
                    and self.norm_break() == "\n" and rng.chance(1, 8):
                out.append(pad)
                self.feat.add("quoted-multiline")
                continue
            if raw_ok and not force and not rng.chance(1, 10):
                out.append(ch)
            else:
                forms = []
                if ch in DQ_ESC:
                    forms.append("\\" + DQ_ESC[ch])
                if o <= 0xff:
                    forms.append("\\x%02X" % o)
                    forms.append("\\x%02x" % o)
                if o <= 0xffff:
                    forms.append("\\u%04X" % o)
                forms.append("\\U%08X" % o)
                out.append(forms[rng.next(len(forms))])
                self.feat.add("escape")
            force = False
            if not key and rng.chance(1, 14) and i < n - 1:
                # escaped line break contributes nothing; leading blanks of the next line are skipped, so a
                # following space or tab must itself be written as an escape
                out.append("\\" + pad)
                force = text[i + 1] in " \t"
                self.feat.add("escaped-break")
        out.append('"')
        return "".join(out)

    def block_scalar(self, style, text, rng, cur_indent):
        """header + content lines for a literal/folded scalar whose value is exactly text."""
        nl = self.nl
        nb = self.norm_break()
        body = text.replace("\n", nb) if nb != "\n" else text
        # chomping
        stripped = text.rstrip("\n")
        trailing = len(text) - len(stripped)
        if trailing == 0:
            chomp = "-"
        elif trailing == 1 and stripped != "":
            chomp = "" if rng.chance(3, 4) else "+"
        else:
            chomp = "+"
        lines = stripped.split("\n") if stripped != "" else []
        extra_blank = 0
        if chomp == "+":
            extra_blank = trailing - 1 if stripped != "" else trailing
        elif chomp in ("", "-") and rng.chance(1, 5):
            extra_blank = -(1 + rng.next(2))      # trailing blank lines that chomping removes
        if style == "fold":
            lines = unfold_lines(lines, rng)
        n = 1 + rng.next(4) if rng.chance(2, 3) else 1 + rng.next(9)       # indentation indicators 1-9
        base = cur_indent if cur_indent >= 0 else 0
        col = base + n
        first_content = next((l for l in lines if l != ""), None)
        need_indicator = first_content is None or first_content[0] in " \t" or (lines and lines[0] == "" and rng.chance(1, 2))
        if not need_indicator and rng.chance(1, 6):
            need_indicator = True
        ind = str(n) if need_indicator else ""
        header = ("|" if style == "lit" else ">") + (ind + chomp if rng.chance(1, 2) else chomp + ind)
        header += self.comment(rng)
        out = [header, nl]
        for l in lines:
            if l == "":
                out.append((" " * rng.next(col + 1) if rng.chance(1, 4) else "") + nl)
            else:
                out.append(" " * col + l + nl)
        blanks = abs(extra_blank)
        for _ in range(blanks):
            out.append((" " * rng.next(col + 1) if rng.chance(1, 4) else "") + nl)
        self.feat.add("block-scalar:" + style)
        if ind:
            self.feat.add("block-scalar:indent-indicator")
        if chomp:
            self.feat.add("block-scalar:chomp" + chomp)
        return "".join(out)

    def plain_multiline(self, text, rng, cont_indent):
        words = text.split(" ")
        if len(words) < 2 or self.norm_break() != "\n" or not all(re.match(r"^[A-Za-z0-9]+$", w) for w in words):
            return text
        out = [words[0]]
        broke = False
        for w in words[1:]:
            if rng.chance(1, 3):
                out.append(self.nl + " " * cont_indent + w)
                broke = True
            else:
                out.append(" " + w)
        if broke:
            self.feat.add("plain-multiline")
        return "".join(out)

    # ---- nodes
    def alias_name(self, n):
        if not self.anchors:
            return None
        return self.anchors[n % len(self.anchors)]

    def inline_node(self, node, rng, flow, key, cont_indent):
        """Source of a node that fits on the current line (scalars, aliases, flow collections), or None when the node
        needs block layout.  Appends expected events."""
        if key:
            self.oneline += 1
            try:
                return self._inline_node(node, rng, flow, key, cont_indent)
            finally:
                self.oneline -= 1
        return self._inline_node(node, rng, flow, key, cont_indent)

    def _inline_node(self, node, rng, flow, key, cont_indent):
        kind = node[0]
        key = key or self.oneline > 0
        if kind == "a":
            name = self.alias_name(node[1])
            if name is None:
                self.ev.append(("SC", None, None, "noalias", True))
                return "noalias"
            self.ev.append(("AL", name))
            self.feat.add("alias")
            return "*" + name
        if kind == "s":
            _, p, style, text, r = node
            rng = Rng(r)
            style = self.scalar_style(style, text, flow, key, False)
            src, name, tag = self.props(p)
            if name:
                self.anchors.append(name)
            if style == "plain":
                body = text if key or flow else self.plain_multiline(text, rng, cont_indent)
            else:
                body = self.flow_scalar_text(style, text, rng, cont_indent, key)
            self.feat.add("scalar:" + style)
            self.ev.append(("SC", name, tag, text, style == "plain"))
            if style == "plain" and text == "":
                return src
            return (src + " " + body) if src else body
        if kind in ("q", "m") and (node[2] or flow or key):
            return self.flow_collection(node, None if key else cont_indent)
        return None

    def flow_collection(self, node, cont_indent):
        kind, p, _flow, items, r = node
        rng = Rng(r)
        src, name, tag = self.props(p)
        if name:
            self.anchors.append(name)
        multi = rng.chance(1, 6) and cont_indent is not None and not self.oneline
        sep = "," + (self.nl + " " * cont_indent if multi else " ")
        if multi:
            self.feat.add("flow-multiline")
        parts = []
        if kind == "q":
            self.ev.append(("QS", name, tag, True))
            for it in items:
                if it[0] != "a" and rng.chance(1, 8):
                    # single-pair mapping inside a flow sequence
                    self.ev.append(("MS", None, None, True))
                    k = self.inline_node(("s", (False, None), "plain", "pk", 0), rng, True, True, cont_indent)
                    v = self.inline_node(it, rng, True, False, cont_indent)
                    self.ev.append(("ME",))
                    parts.append(k + ": " + v if v != "" else k + ": ''")
                    if v == "":
                        # empty plain value cannot be written here: patch the expectation to the quoted form
                        self._patch_last_scalar_quoted()
                    self.feat.add("flow-single-pair")
                else:
                    v = self.inline_node(it, rng, True, False, cont_indent)
                    if v == "":
                        v = "''"
                        self._patch_last_scalar_quoted()
                    parts.append(v)
            self.ev.append(("QE",))
            body = "[" + sep.join(parts) + ("," if parts and rng.chance(1, 10) else "") + "]"
            self.feat.add("flow-seq")
        else:
            self.ev.append(("MS", name, tag, True))
            for k_node, v_node in items:
                explicit = rng.chance(1, 8)
                k = self.inline_node(k_node, rng, True, not explicit, cont_indent)
                if k == "":
                    k = "''"
                    self._patch_last_scalar_quoted()
                if v_node[0] == "s" and v_node[3] == "" and v_node[1] == (False, None) and v_node[2] == "plain" and rng.chance(1, 2):
                    # key without value
                    self.ev.append(("SC", None, None, "", True))
                    parts.append(("? " + k) if explicit else k)
                    self.feat.add("flow-key-without-value")
                    continue
                v = self.inline_node(v_node, rng, True, False, cont_indent)
                if v == "":
                    v = "''"
                    self._patch_last_scalar_quoted()
                if k.startswith("*"):
                    k += " "
                parts.append(("? " + k + " : " + v) if explicit else (k + ": " + v))
            self.ev.append(("ME",))
            body = "{" + sep.join(parts) + ("," if parts and rng.chance(1, 10) else "") + "}"
            self.feat.add("flow-map")
        return (src + " " + body) if src else body

    def _patch_last_scalar_quoted(self):
        # the last expected event is an empty plain scalar that had to be written as '' (non-plain)
        for i in range(len(self.ev) - 1, -1, -1):
            if self.ev[i][0] == "SC":
                e = self.ev[i]
                self.ev[i] = ("SC", e[1], e[2], e[3], False)
                return

    def block_value(self, node, cur_indent, after, rng):
        """Text that follows an introducer ('-', 'key:', '---', '' at the root) and runs to the end of the node,
        ending with a line break.  cur_indent = indent of the enclosing block collection (-1 at the root);
        after in {'root', 'doc', 'seq', 'map', 'ckey'}."""
        nl = self.nl
        kind = node[0]
        sp = "" if after == "root" else " "
        cont = (cur_indent if cur_indent >= 0 else 0) + 1 + rng.next(3)
        if kind == "s" and node[2] in ("lit", "fold") and self.scalar_style(node[2], node[3], False, False, True) in ("lit", "fold"):
            _, p, style, text, r = node
            rng2 = Rng(r)
            src, name, tag = self.props(p)
            if name:
                self.anchors.append(name)
            self.ev.append(("SC", name, tag, text, False))
            return sp + (src + " " if src else "") + self.block_scalar(style, text, rng2, cur_indent)
        if kind in ("a", "s") or (kind in ("q", "m") and node[2]):
            if kind == "s" and node[3] == "" and after == "root" and self.scalar_style(node[2], "", False, False, False) == "plain" \
                    and node[1] == (False, None):
                # an empty root needs '---' (handled by the caller); degrade to a quoted empty string
                node = ("s", node[1], "sq", "", node[4])
            src = self.inline_node(node, rng, False, False, cont)
            if src == "":
                return self.comment(rng) + nl
            return sp + src + self.comment(rng) + nl
        # block collections
        _, p, _flow, items, r = node
        rng = Rng(r)
        if not items:
            src = self.flow_collection((kind, p, True, items, r), cont)
            return sp + src + self.comment(rng) + nl
        src, name, tag = self.props(p)
        if name:
            self.anchors.append(name)
        if kind == "q":
            self.ev.append(("QS", name, tag, False))
            compact = after in ("seq", "ckey") and not src and rng.chance(1, 2)
            if compact:
                col = cur_indent + 2
                head = " "
                self.feat.add("compact-nested")
            elif after in ("root", "doc"):
                col = rng.next(3) if rng.chance(1, 4) else 0
                head = ((sp + src) if src else "") + self.comment(rng) + nl if (src or after == "doc") else ""
            else:
                if after == "map" and rng.chance(1, 2):
                    col = cur_indent
                    self.feat.add("indentless-seq")
                    if items[-1][0] == "s" and items[-1][3] == "" and items[-1][2] == "plain" and items[-1][1] == (False, None):
                        self.feat.add("indentless-seq:last-entry-empty")
                else:
                    col = cur_indent + 1 + rng.next(4)
                head = ((sp + src) if src else "") + self.comment(rng) + nl
            out = [head]
            for i, it in enumerate(items):
                prefix = "" if (compact and i == 0) else " " * col
                if i and rng.chance(1, 12):
                    out.append(" " * rng.next(col + 1) + "# own-line comment" + nl)
                    self.feat.add("comment")
                out.append(prefix + "-" + self.block_value(it, col, "seq", Rng(r + 7 * i + 1)))
            self.ev.append(("QE",))
            self.feat.add("block-seq")
            return "".join(out)
        self.ev.append(("MS", name, tag, False))
        compact = after in ("seq", "ckey") and not src and rng.chance(1, 2)
        if compact:
            col = cur_indent + 2
            head = " "
            self.feat.add("compact-nested")
        elif after in ("root", "doc"):
            col = rng.next(3) if rng.chance(1, 4) else 0
            head = ((sp + src) if src else "") + self.comment(rng) + nl if (src or after == "doc") else ""
        else:
            col = cur_indent + 1 + rng.next(4)
            head = ((sp + src) if src else "") + self.comment(rng) + nl
        out = [head]
        for i, (k_node, v_node) in enumerate(items):
            prefix = "" if (compact and i == 0) else " " * col
            rngi = Rng(r + 13 * i + 3)
            if i and rngi.chance(1, 12):
                out.append(" " * rngi.next(col + 1) + "#c" + nl)
                self.feat.add("comment")
            simple = k_node[0] == "a" or (k_node[0] == "s" and k_node[2] not in ("lit", "fold") and "\n" not in k_node[3]
                                         and len(k_node[3]) < 60) or (k_node[0] in ("q", "m") and k_node[2] and _small(k_node))
            if simple and not rngi.chance(1, 8):
                k = self.inline_node(k_node, rngi, False, True, None)
                if k == "":
                    k = "''"
                    self._patch_last_scalar_quoted()
                if k.startswith("*") or k.endswith(("]", "}")) and rngi.chance(1, 2):
                    k += " "
                out.append(prefix + k + ":" + self.block_value(v_node, col, "map", rngi))
            else:
                self.feat.add("complex-key")
                out.append(prefix + "?" + self.block_value(k_node, col, "ckey", rngi))
                if v_node[0] == "s" and v_node[3] == "" and v_node[1] == (False, None) and v_node[2] == "plain" and rngi.chance(1, 2):
                    self.ev.append(("SC", None, None, "", True))      # no ':' line at all
                    self.feat.add("complex-key-without-value")
                else:
                    out.append(" " * col + ":" + self.block_value(v_node, col, "ckey", rngi))
        self.ev.append(("ME",))
        self.feat.add("block-map")
        return "".join(out)

    def document(self, doc, first, prev_open):
        nl = self.nl
        self.anchors = []
        self.count = 0
        self.handles = dict(doc.get("handles") or [])
        rng = Rng(hash_small(repr(doc.get("version")) + repr(doc.get("handles"))) + 17)
        out = []
        version = doc.get("version")
        directives = bool(version or self.handles)
        explicit = doc["explicit"] or directives or not first
        if directives and not first and not prev_open:
            pass
        if version:
            out.append("%%YAML %d.%d" % version + self.comment(rng) + nl)
            self.feat.add("directive:YAML")
        for h, pfx in doc.get("handles") or []:
            out.append("%%TAG %s %s" % (h, pfx) + nl)
            self.feat.add("directive:TAG")
        root = doc["root"]
        empty_root = root[0] == "s" and root[3] == "" and root[2] == "plain" and root[1] == (False, None)
        if empty_root:
            explicit = True
        self.ev.append(("DS", explicit, version, dict(self.handles) or None))
        if explicit:
            out.append("---")
            if empty_root:
                self.ev.append(("SC", None, None, "", True))
                out.append(self.comment(rng) + nl)
            else:
                out.append(self.block_value(root, -1, "doc", rng))
        else:
            out.append(self.block_value(root, -1, "root", rng))
        end = doc.get("end", False)
        if end:
            out.append("..." + self.comment(rng) + nl)
        self.ev.append(("DE", end))
        return "".join(out), end


def _small(node):
    return len(repr(node)) < 300 and not _has_block_scalar(node)


def _has_block_scalar(node):
    if node[0] == "s":
        return False
    if node[0] == "q":
        return any(_has_block_scalar(c) for c in node[3])
    if node[0] == "m":
        return any(_has_block_scalar(k) or _has_block_scalar(v) for k, v in node[3])
    return False


def hash_small(s):
    h = 0
    for ch in s:
        h = (h * 131 + ord(ch)) & 0xffffff
    return h


def _unescape_uri(s):
    if "%" not in s:
        return s
    out = bytearray()
    i = 0
    while i < len(s):
        if s[i] == "%":
            out.append(int(s[i + 1:i + 3], 16))
            i += 3
        else:
            out.extend(s[i].encode("utf-8"))
            i += 1
    return out.decode("utf-8")


def block_text_ok(text):
    """Can text be the exact value of a literal/folded scalar rendered by block_scalar()?"""
    for ch in text:
        if ch == "\n":
            continue
        if not _printable(ch) or ch in "\x85\u2028\u2029\ufeff\r":
            return False
    for l in text.split("\n"):
        if l and l.strip(" ") == "":
            return False      # a line of spaces only is ambiguous with an (over-)indented blank line
    return True


def unfold_lines(lines, rng):
    """Inverse of folding for the '>' style: source lines whose folded value is '\\n'.join(lines)."""
    return _fix_fold_blank_runs(lines, None, rng)


def _fix_fold_blank_runs(lines, out, rng):
    """Between foldable lines, k line feeds in the value need k+... recompute precisely from the value."""
    # Re-derive from scratch to keep the rule in one place: walk the value lines; between consecutive non-blank
    # lines a and b separated by m >= 0 blank lines: if both are foldable (do not start with space/tab) the source
    # needs m+1 empty lines... when m == 0 we need one empty line (value has one '\n'); when m >= 1 the value has
    # m+1 '\n' and the source needs m+1 empty lines as well.  If either is more-indented the source needs m empty lines.
    src = []
    idx = [i for i, l in enumerate(lines) if l != ""]
    if not idx:
        return list(lines)
    # leading blank lines are kept verbatim
    src.extend([""] * idx[0])
    for n, i in enumerate(idx):
        l = lines[i]
        src.extend(_split_foldable(l, rng))
        if n + 1 < len(idx):
            j = idx[n + 1]
            m = j - i - 1
            b = lines[j]
            if l[0] not in " \t" and b[0] not in " \t":
                src.extend([""] * (m + 1))
            else:
                src.extend([""] * m)
    return src


def _split_foldable(l, rng):
    if l[0] in " \t" or not rng.chance(1, 2):
        return [l]
    parts = []
    cur = ""
    for j, ch in enumerate(l):
        if ch == " " and 0 < j < len(l) - 1 and l[j - 1] not in " \t" and l[j + 1] not in " \t" and rng.chance(1, 3):
            parts.append(cur)
            cur = ""
        else:
            cur += ch
    parts.append(cur)
    return parts


def render(stream, portable=True):
    r = _R(stream, portable)
    nl = r.nl
    out = []
    r.ev.append(("SS",))
    if stream.get("lead_comment"):
        out.append("# leading comment" + nl)
        r.feat.add("comment")
    prev_open = False
    pos = sum(len(x) for x in out)
    for i, doc in enumerate(stream["docs"]):
        directives = bool(doc.get("version") or doc.get("handles"))
        if i and directives and not prev_end:
            out.append("..." + nl)
            # the previous document now ends explicitly
            for k in range(len(r.ev) - 1, -1, -1):
                if r.ev[k][0] == "DE":
                    r.ev[k] = ("DE", True)
                    break
        start = sum(len(x) for x in out)
        text, prev_end = r.document(doc, i == 0, prev_open)
        out.append(text)
        r.out.doc_spans.append((start, start + len(text)))
    r.ev.append(("SE",))
    text = "".join(out)
    if stream.get("strip_final") and text.endswith(nl) and not any(f.startswith("block-scalar") for f in r.feat):
        text = text[:-len(nl)]
        r.feat.add("no-final-break")
    if stream.get("bom"):
        text = "\ufeff" + text
        r.feat.add("bom")
    if len(stream["docs"]) > 1:
        r.feat.add("docs>1")
    if nl != "\n":
        r.feat.add("break:" + {"\r\n": "CRLF", "\r": "CR", "\x85": "NEL", "\u2028": "LS", "\u2029": "PS"}[nl])
    r.out.text = text
    return r.out


# -------------------------------------------------------------------------------------------------
# strategies

def _texts():
    words = st.lists(st.sampled_from(["a", "b", "word", "foo", "x1", "lorem", "ipsum", "zz"]), min_size=1, max_size=8).map(" ".join)
    generic = st.lists(st.one_of(
        st.sampled_from(["a", "b", "word", " ", " ", "  ", "\n", "\n\n", "'", "\"", "\\", "#", ": ", "- ", "? ", ",", "[", "]", "{", "}",
                         "&", "*", "!", "|", ">", "%", "@", "`", "\t", "\xe9", "日", "\U0001F600", "\xa0", ":", "-", "x: y", " #c",
                         "---", "..."]),
        st.characters(exclude_categories=("Cs",))), max_size=8).map("".join)
    lines = st.lists(st.one_of(words, words, st.just(""), words.map(lambda w: "  " + w), words.map(lambda w: " " + w),
                               words.map(lambda w: w + "  "), words.map(lambda w: "\t" + w), words.map(lambda w: w + "\t")),
                     min_size=1, max_size=5).map("\n".join)
    trailing = st.tuples(lines, st.sampled_from(["", "\n", "\n", "\n\n", "\n\n\n"])).map("".join)
    return st.one_of(st.sampled_from(PLAIN_VOCAB), st.sampled_from(PLAIN_VOCAB), words, generic, lines, trailing, st.just(""))


DEFAULT_TAGSPECS = [None, None, None, None, None, ("h", "!!", "str"), ("h", "!!", "int"), ("h", "!!", "seq"), ("h", "!!", "map"),
                    ("h", "!!", "null"), ("h", "!!", "float"), ("h", "!!", "bool"), ("h", "!!", "binary"), ("h", "!!", "timestamp"),
                    ("h", "!!", "set"), ("h", "!!", "omap"), ("h", "!!", "pairs"),
                    ("h", "!", "local"), ("h", "!", "a/b.c-d"), ("v", "tag:yaml.org,2002:str"), ("v", "!x"),
                    ("v", "tag:example.com,2000:app/x"), ("h", "!e!", "t"), ("h", "!e!", "x%C3%A9"), ("h", "!", "p%21q"),
                    ("h", "!!", "python/tuple"), ("h", "!!", "python/name:a.b"),
                    ("h", "!e0!", "t9"), ("h", "!9_z!", "0"), ("v", "tag:e.org,2009:x0"),
                    # every punctuation character a tag URI may carry verbatim
                    ("v", "tag:e.org,2000:a+b;c=d&e@f$g~h*i'j(k)l/m?n:o-p_q.r"), ("h", "!", "a+b;c=d&e@f$g~h*i'j(k)l/m?n:o-p_q.r"), ("h", "!e!", "Az09+~*"),
                    # the ends of every character range a tag may use, and escapes written with lower-case and mixed-case hex digits
                    ("h", "!", "AZaz09"), ("v", "tag:e.org,2000:AZaz09"), ("h", "!e!", "x%c3%a9"), ("h", "!", "q%e2%82%ac"), ("v", "tag:e.org,2000:%c3%A9%5b")]


def nodes(max_leaves=10, tagspecs=None, texts=None, allow_nonspecific=False, styles=None):
    tagspecs = list(tagspecs if tagspecs is not None else DEFAULT_TAGSPECS)
    if allow_nonspecific:
        tagspecs.append(("!",))
    texts = texts if texts is not None else _texts()
    styles = styles or ["plain", "plain", "plain", "sq", "dq", "lit", "fold"]
    props = st.tuples(st.sampled_from([False, False, False, True]), st.sampled_from(tagspecs))
    scalar = st.tuples(st.just("s"), props, st.sampled_from(styles), texts, st.integers(0, 2**20))
    alias = st.integers(0, 30).map(lambda n: ("a", n))
    leaf = st.one_of(scalar, scalar, scalar, scalar, alias)

    # an entry or value with nothing written at all ('-' / 'key:' followed directly by the break): every position of a collection
    empty = st.tuples(st.just("s"), st.just((False, None)), st.just("plain"), st.just(""), st.integers(0, 2**20))

    def extend(children):
        entry = st.one_of(children, children, children, children, children, empty)
        seq = st.tuples(st.just("q"), props, st.booleans(), st.lists(entry, max_size=4), st.integers(0, 2**20))
        mp = st.tuples(st.just("m"), props, st.booleans(),
                       st.lists(st.tuples(st.one_of(scalar, scalar, scalar, children), entry), max_size=4), st.integers(0, 2**20))
        return st.one_of(seq, mp)
    return st.recursive(leaf, extend, max_leaves=max_leaves)


def documents(max_leaves=10, **kw):
    handles = st.sampled_from([[], [], [], [("!e!", "tag:example.com,2000:")], [("!e!", "!my-")],
                               [("!e!", "tag:e.org,2000:"), ("!f-1!", "tag:f.org,2001:x/")],
                               [("!e0!", "tag:e.org,2009:"), ("!9_z!", "!nine-")], [("!e0!", "!zero-"), ("!e!", "tag:e.org,2000:")],
                               # the default handles redefined for one document: the same shorthand means something else in the next
                               [("!", "tag:yaml.org,2002:")], [("!!", "tag:example.com,2000:")], [("!", "!my-"), ("!!", "tag:e.org,2000:x/")]])
    return st.fixed_dictionaries({
        "version": st.sampled_from([None, None, None, (1, 1), (1, 2)]),
        "handles": handles,
        "explicit": st.booleans(),
        "end": st.sampled_from([False, False, True]),
        "root": nodes(max_leaves, **kw),
    })


def streams(max_docs=3, max_leaves=10, nls=None, **kw):
    return st.fixed_dictionaries({
        "docs": st.lists(documents(max_leaves, **kw), min_size=0, max_size=max_docs),
        "nl": st.sampled_from(nls or NLS),
        "bom": st.sampled_from([False, False, False, False, True]),
        "lead_comment": st.sampled_from([False, False, False, True]),
        "strip_final": st.sampled_from([False, False, False, True]),
    })
