"""Input texts for the reading-side checks: valid renderings, grammar-aware and byte-level mutations,
explicit productions for escapes / directives / block-scalar headers / tags (DESIGN 2.6 'Invalid documents')."""
from hypothesis import strategies as st

from vlib import gen_docs as gd

INDICATOR_ATOMS = ["-", "- ", "?", "? ", ":", ": ", ",", "[", "]", "{", "}", "#", " #", "&", "&a", "*", "*a", "!", "!!", "!a!", "!<", ">",
                   "|", "|-", ">+", "'", "\"", "%", "%YAML", "%TAG", "@", "`", "---", "...", "\t", " ", "  ", "\n", "\r\n", "\r",
                   "\\x85", "\\u2028", "\\", "\\\n", "<<", "a", "a: b", "\0", "\ufeff", "\x07", "\ud7ff", "\U0010ffff", "\x7f", "\x85",
                   "\u2028", "\u2029", "\xa0", "\ufffe", "\uffff"]
# white space look-alikes (str.isspace()/strip() would treat them as blanks; YAML does not)
INDICATOR_ATOMS += ["\u2003", "\u3000", "\u1680", "\u2009", ":\xa0", "-\u2003", "k:\u3000v", "\x0b", "\x0c", "\x1c", "\x1f", "a:\x0bb", "- a\x0c"]
INDICATOR_ATOMS += ["\u200b", "\u200c", "\u200d", "\u2060", "\u0301", "\u00ad", "\u202e", "\uff21", "a\u200bb: c", "# \u200d c"]
INDICATOR_ATOMS = [a for a in INDICATOR_ATOMS if not a.startswith("\\x") and not a.startswith("\\u")]


def rendered_texts(max_docs=2, max_leaves=8):
    return gd.streams(max_docs, max_leaves).map(lambda s: gd.render(s).text)


def apply_mutations(text, ops):
    for kind, p, q, atom in ops:
        n = len(text)
        if n == 0:
            text = atom
            continue
        a = p % (n + 1)
        b = min(n, a + 1 + q % 8)
        if kind == "delete":
            text = text[:a] + text[b:]
        elif kind == "dup":
            text = text[:b] + text[a:b] + text[b:]
        elif kind == "insert":
            text = text[:a] + atom + text[a:]
        elif kind == "replace":
            text = text[:a] + atom + text[b:]
        elif kind == "truncate":
            text = text[:a]
        elif kind == "swap":
            c = q % (n + 1)
            lo, hi = min(a, c), max(a, c)
            text = text[:lo] + text[hi:] + text[lo:hi]
        elif kind == "indent":
            # add or remove spaces at the start of the line containing a
            ls = text.rfind("\n", 0, a) + 1
            if q % 2:
                text = text[:ls] + " " * (1 + q % 3) + text[ls:]
            elif text[ls:ls + 1] == " ":
                text = text[:ls] + text[ls + 1:]
        elif kind == "tab":
            text = text[:a] + "\t" + text[a:]
    return text


def mutation_ops(max_ops=3):
    op = st.tuples(st.sampled_from(["delete", "dup", "insert", "insert", "replace", "truncate", "swap", "indent", "tab"]),
                   st.integers(0, 4000), st.integers(0, 4000), st.sampled_from(INDICATOR_ATOMS))
    return st.lists(op, min_size=1, max_size=max_ops)


def mutated_texts():
    return st.tuples(rendered_texts(), mutation_ops()).map(lambda t: apply_mutations(t[0], t[1]))


HEX = "0123456789abcdefABCDEF"
# characters for which str.isdigit() / isdecimal() / isnumeric() is true but which are not ASCII digits
LOOKALIKE_DIGITS = ["\xb2", "\u2460", "\xbd", "\u0663", "\uff13", "\u0969"]


def escape_productions():
    hexs = lambda n: st.text(alphabet=HEX, min_size=n, max_size=n)
    badhex = lambda n: st.text(alphabet=HEX + "gG-_ \"\n", min_size=0, max_size=n)
    forms = st.one_of(
        hexs(2).map(lambda h: "\\x" + h), hexs(4).map(lambda h: "\\u" + h), hexs(8).map(lambda h: "\\U" + h),
        st.sampled_from(["\\UFFFFFFFF", "\\U00110000", "\\U0010FFFF", "\\U7FFFFFFF", "\\U80000000", "\\uD800", "\\uDFFF", "\\uDC00\\uD800",
                         "\\U0000D800", "\\x00", "\\u0000", "\\0", "\\uFFFE", "\\uFFFF", "\\U0001FFFF"]),
        badhex(2).map(lambda h: "\\x" + h), badhex(4).map(lambda h: "\\u" + h), badhex(8).map(lambda h: "\\U" + h),
        st.characters(exclude_categories=("Cs",)).map(lambda c: "\\" + c),
        st.tuples(st.sampled_from(["\\x", "\\u", "\\U"]), st.lists(st.sampled_from(LOOKALIKE_DIGITS + ["1", "a"]), min_size=1, max_size=8)).map(
            lambda t: t[0] + "".join(t[1])),
        # escapes that form, or nearly form, a UTF-16 surrogate pair (JSON writers produce them): high half, then a low half that is
        # complete, cut at every length, or damaged at one position
        st.tuples(st.sampled_from(["\\ud83d", "\\uD800", "\\uDBFF", "\\udbff", "\\uDC00"]), st.sampled_from(["\\ude00", "\\uDC00", "\\uDFFF", "\\udfff", "\\ud800"]),
                  st.integers(0, 6), st.sampled_from(["", "", "g", " ", "-", "\u0663", "\\"])).map(lambda t: t[0] + t[1][:t[2]] + t[3]),
        st.sampled_from(["\\", "\\\n", "\\\r\n  ", "\\ ", "\\\t", "\\N", "\\_", "\\L", "\\P", "\\e", "\\/", "\\q", "\\8", "\\'"]))
    body = st.lists(st.one_of(forms, forms, st.sampled_from(["a", " ", "b c", "\n", "\n\n ", "'", "#"])), min_size=1, max_size=5).map("".join)
    wrap = st.sampled_from(['"%s"', '"%s', 'k: "%s"', '- "%s"\n- x', '["%s", a]', '{"%s": 1}', '? "%s"\n: v', '--- "%s"\n...\n', "'%s'", "%s"])
    return st.tuples(wrap, body).map(lambda t: t[0] % t[1])


def directive_productions():
    digits = st.one_of(st.integers(0, 12).map(str), st.sampled_from(["", "1", "01", "9" * 9, "9" * 10, "1" * 100, "7" * 4299, "7" * 4301, "7" * 5000,
                                                                    "-1", "+1", "1e3", "x", " 1"] + LOOKALIKE_DIGITS + ["1" + d for d in LOOKALIKE_DIGITS]))
    yaml_dir = st.tuples(digits, st.sampled_from([".", ".", "", " ", ".."]), digits, st.sampled_from(["", " ", " #c", " x", ".1", "\t"])).map(
        lambda t: "%YAML " + t[0] + t[1] + t[2] + t[3])
    handle = st.sampled_from(["!e!", "!", "!!", "!e", "e!", "", "!a-b_c!", "!a b!", "!\xe9!", "!e!!", "!" + "h" * 300 + "!"])
    prefix = st.sampled_from(["tag:example.com,2000:", "!my-", "", "!", "tag:%C3%A9", "tag:%FF", "tag:%C3", "tag:%", "tag:%G1", "tag:%4", "tag:\xe9",
                              "a b", "tag:x,y:[z]", "%41", "tag:" + "x" * 2000, "tag:%00", "tag:%ED%A0%80", "tag:%F4%90%80%80"])
    tag_dir = st.tuples(handle, st.sampled_from([" ", " ", "", "  ", "\t"]), prefix, st.sampled_from(["", " ", " #c", " x"])).map(
        lambda t: "%TAG " + t[0] + t[1] + t[2] + t[3])
    other = st.sampled_from(["%", "% ", "%FOO bar baz", "%FOO", "%YAML", "%TAG", "%TAG !e!", "%YAML 1.1 1.2", "%\xe9 x", "%YAML\t1.1", "%1"])
    line = st.one_of(yaml_dir, yaml_dir, tag_dir, tag_dir, other)
    doc_tail = st.sampled_from(["--- a\n", "---\n!e!x v\n", "--- !e!%C3%A9 v\n", "--- !e!%FF v\n", "a\n", "", "---", "--- !e!t [!e!u a]\n...\n%TAG !e! !n-\n--- !e!v b\n",
                                "--- !<tag:%ZZ> a\n", "--- !e!%C3 a\n", "...\n", "--- !f!x a\n"])
    nl = st.sampled_from(["\n", "\n", "\r\n", "\r", "\x85", " "])
    return st.tuples(st.lists(line, min_size=1, max_size=3), nl, doc_tail).map(lambda t: t[1].join(t[0]) + t[1] + t[2])


def header_productions():
    # digit look-alikes: characters for which str.isdigit()/isdecimal() is true but which are not ASCII digits
    ind = st.sampled_from(["", "0", "1", "2", "9", "10", "00", "-", "+", "-+", "+-", "1-", "-1", "+9", "1-2", "12", "x", " ", "\t", "-0", "0-",
                           "\xb2", "\u2460", "\xbd", "\u0663", "\uff13", "\xb2-", "+\u0663", "1\xb2", "\u0969"])
    head = st.tuples(st.sampled_from(["|", ">"]), ind, st.sampled_from(["", " ", " #c", " x", "#c", "\t#c"])).map("".join)
    body = st.sampled_from(["\n a\n", "\n  a\n b\n", "\n\n\n   a\n", "\na\n", "\n \n  \n   \n a\n", "", "\n", "\n\ta\n", "\n a\n\tb\n", "\n a\n...\n",
                            "\n a\n---\nb", "\n   a\n  b\n c\n", "\n a\r b\r\n c\x85 d  e", "\n" + " " * 1100 + "a\n"])
    ctx = st.sampled_from(["%s%s", "k: %s%s", "- %s%s", "--- %s%s", "- - %s%s", "k:\n  j: %s%s", "[%s%s]", "? %s%s: v\n"])
    return st.tuples(ctx, head, body).map(lambda t: t[0] % (t[1], t[2]))


def tag_anchor_productions():
    atoms = st.sampled_from(["!", "!!", "!a", "!a!", "!a!b", "!a!b!c", "!<", "!<a", "!<a>", "!<>", "!< a>", "!<a >", "!%41", "!%ZZ", "!%4", "!%", "!%C3%A9",
                             "!%FF", "!%C3", "!a%", "!!%E2%82", "!,", "!a,b", "![", "!a[b]", "!{", "&", "&a", "& a", "&a&b", "&\xe9", "&a*b", "&a,", "&a:",
                             "*", "*a", "* a", "*a*b", "*\xe9", "*a,", "*a:", "&" + "a" * 2000, "!" + "a" * 2000, "!e!" + "%41" * 400, "&a\t", "*a\t",
                             "!a\t", "!\t", "&-", "&_", "&1", "!!str", "!!int", "!local"])
    ctx = st.sampled_from(["%s", "%s v", "%s\n", "- %s v\n", "k: %s v\n", "[%s v, %s]", "{%s k: %s v}", "%s %s v", "--- %s\n...\n", "? %s\n: %s\n",
                           "%s: v\n", "%s [a]\n", "%s {a: b}\n", "%s |\n  x\n", "%s\n- a\n"])
    return st.tuples(ctx, atoms, atoms).map(lambda t: t[0].replace("%s", t[1], 1).replace("%s", t[2]))


def structure_productions():
    atoms = st.lists(st.sampled_from(INDICATOR_ATOMS + ["a", "b", "k: v", "- x", "k:", "\n", "\n", " ", "  "]), max_size=14).map("".join)
    return atoms


def numberlike_productions():
    """Long plain scalars that almost match a numeric / timestamp production and then stop matching: candidates for
    catastrophic backtracking in the implicit resolvers, and for unguarded int()/float() conversions."""
    run = st.integers(18, 64)
    digit = st.sampled_from(["1", "7", "0", "9", "_", "1_", "12", "0_"])
    prefix = st.sampled_from(["", "-", "+", "0x", "0b", "0o", "0", ".", "1.", "1e", "1.5e+", "1:", "2001-", "2001-01-", "2001-01-01 ", "2001-01-01T1",
                              "\xb2", "\u0663"])
    suffix = st.sampled_from(["-a", "x", ":", ".", "e", "_", " a", ":6", ":61", "-", "+", "g", "\xb2", "\u0663", ".e", "e+", "1e1e1", ""])
    ctx = st.sampled_from(["%s\n", "k: %s\n", "- %s\n", "[%s]\n", "%s: v\n", "{k: %s}\n", "!!int %s\n", "!!float %s\n", "!!timestamp %s\n"])
    return st.tuples(ctx, prefix, digit, run, suffix).map(lambda t: t[0] % (t[1] + t[2] * t[3] + t[4]))


def boundary_productions():
    """An indicator or document marker followed DIRECTLY by each kind of separator - space, tab, every line break character,
    the end of the input - and by a non-separator, at the start of the input, of a line and after an entry."""
    ind = st.sampled_from(["-", "?", ":", "---", "...", "- -", "? -", "k:", "- k:", "#", "|", ">", "&a", "*a", "!t", "- ?", "[a]:", "'q':", "\"q\":"])
    after = st.sampled_from(["", " ", "\t", "\n", "\r", "\r\n", "\x85", "\u2028", "\u2029", "\x00", "a", " a", "\ta", "\n a", "\u2028a", "\u2029 a", "\x85a", "\ufeff"])
    before = st.sampled_from(["", "", "a\n", "k: v\n", "- x\n", "--- a\n", "a\n...\n", "[a, ", "k:\n  ", "- ", "? ", "\ufeff"])
    tail = st.sampled_from(["", "", "\n", "b\n", "\n- b\n", "\n...\n", "]"])
    return st.tuples(before, ind, after, tail).map("".join)


def flow_key_productions():
    """Flow collections in key and value position on ONE line, with entries that have an empty key, an empty value or an explicit
    '?': the scanner's simple-key bookkeeping per flow level (a candidate saved at a depth that is closed and opened again)."""
    entry = st.sampled_from(["a", "a", "b c", ":b", ": z", "a:", "a: b", "? a", "?", "? a : b", "*x", "&x a", "!t a", "'q'", "\"d\": e", "", "[a]", "{a}", "[:b]", "{:b}", "[a]: c"])
    def coll(es, kind, sp):
        o, c = ("[", "]") if kind else ("{", "}")
        return o + sp + (", " if sp else ",").join(es) + sp + c
    flow = st.tuples(st.lists(entry, max_size=3), st.booleans(), st.sampled_from(["", "", " "])).map(lambda t: coll(*t))
    sep = st.sampled_from([": ", ": ", ":", " : ", ":\n  ", ", "])
    lead = st.sampled_from(["", "", "- ", "? ", "k: ", "[", "{", "- - ", "--- "])
    tail = st.sampled_from(["\n", "\n", "", "]\n", "}\n", ": x\n", "\n- y\n", " # c\n"])
    return st.tuples(lead, flow, sep, flow, tail).map("".join)


def productions():
    return st.one_of(numberlike_productions(), escape_productions(), directive_productions(), header_productions(), tag_anchor_productions(), structure_productions(),
                     boundary_productions(), flow_key_productions())


def all_truncations(text):
    return [text[:i] for i in range(len(text) + 1)]


ENCODINGS = ["utf-8", "utf-8-sig", "utf-16", "utf-16-le", "utf-16-be", "utf-16-le-bom", "utf-16-be-bom", "latin-1", "utf-32"]


def encode_as(text, enc):
    import codecs
    try:
        if enc == "utf-16-le-bom":
            return codecs.BOM_UTF16_LE + text.encode("utf-16-le", "surrogatepass")
        if enc == "utf-16-be-bom":
            return codecs.BOM_UTF16_BE + text.encode("utf-16-be", "surrogatepass")
        return text.encode(enc, "surrogatepass" if enc.startswith("utf") else "replace")
    except UnicodeEncodeError:
        return text.encode("utf-8", "surrogatepass")


def byte_inputs():
    """bytes: encoded texts (valid and mutated) in several encodings, with byte-level damage."""
    base = st.one_of(rendered_texts(), mutated_texts(), productions(), st.text(max_size=40))
    enc = st.sampled_from(ENCODINGS)

    def damage(t):
        data, ops = t
        b = bytearray(data)
        for kind, p, v in ops:
            if not b:
                b.append(v)
                continue
            i = p % len(b)
            if kind == "flip":
                b[i] = v
            elif kind == "insert":
                b.insert(i, v)
            elif kind == "delete":
                del b[i]
            elif kind == "truncate":
                del b[i:]
        return bytes(b)
    ops = st.lists(st.tuples(st.sampled_from(["flip", "insert", "delete", "truncate"]), st.integers(0, 5000),
                             st.sampled_from([0x00, 0x80, 0xbf, 0xc0, 0xc3, 0xe2, 0xed, 0xf0, 0xf4, 0xf8, 0xfe, 0xff, 0x0a, 0x0d, 0x20, 0x22, 0x5c, 0xd8, 0xdc])),
                   max_size=3)
    encoded = st.tuples(base, enc).map(lambda t: encode_as(t[0], t[1]))
    return st.one_of(encoded, st.tuples(encoded, ops).map(damage), st.binary(max_size=40),
                     st.sampled_from([b"\xff\xfe", b"\xfe\xff", b"\xff\xfea", b"\xfe\xff\x00", b"\xef\xbb\xbf", b"\xef\xbb", b"\xff\xfe\x00\xd8",
                                      b"\xff\xfe\x00\xd8\x00\xd8", b"\xfe\xff\xd8\x00", b"\xc3", b"a\xc3", b"\xed\xa0\x80", b"\xf4\x90\x80\x80",
                                      b"\xc0\xaf", b"\xe0\x80\xaf", b"a: \x00", b"\x00", b"- \x7f", b"\xef\xbb\xbf\xef\xbb\xbfa"]))
