"""Independent, non-mutating evaluator of a composed node graph under the YAML 1.1 construction rules for
mappings, merge keys, sets, ordered maps and pairs (C14; also used by C13 for the abstract structure).

The rule, as the property states it:

  * a mapping holds its own keys - the value of the LAST occurrence among equal keys (Python dict equality:
    1 == 1.0 == True), keys in document order (position of the first occurrence);
  * for each merge key '<<' (an untagged plain scalar; a quoted '<<' is an ordinary key) the entries of the merged
    mapping(s) are added for keys the mapping does not define itself; in a merge list an EARLIER mapping takes
    precedence over a later one; a LATER merge key takes precedence over an earlier one; merges apply recursively;
  * a merge value must be a mapping or a sequence of mappings; !!set is a mapping whose keys are the members
    (merges apply); !!omap / !!pairs are sequences of single-pair mappings and give lists of 2-tuples;
  * a key must be hashable.

Anything else is an error (RefError) - the loaders must raise ConstructorError exactly then.  Scalars are evaluated
by vlib.ref_scalar from the tag the composer resolved.  Results carry, per dict, whether its key order is claimed
(only mappings without a merge key): ordered_ids.
"""
import base64
import binascii

from vlib import ref_scalar

T = "tag:yaml.org,2002:"


class RefError(Exception):
    pass


class NoClaim(Exception):
    """The rules say nothing definite about this document (stated where raised)."""


class Evaluator:
    def __init__(self):
        self.ordered_ids = set()
        self.in_progress = set()
        self.keep = []          # every dict built stays alive, so that ids in ordered_ids are never reused
        # dicts in which two equal keys of different types met (1 / 1.0 / true): which key object survives is a matter of
        # Python's dict and not of the property; everywhere else a key has the type its own node gives it
        self.lenient_ids = set()

    def scalar(self, node):
        tag, text = node.tag, node.value
        if tag == T + "str":
            return text
        if tag == T + "null":
            return None
        if tag == T + "bool":
            if text.lower() not in ref_scalar.BOOLS:
                raise RefError("bad bool")
            return ref_scalar.BOOLS[text.lower()]
        if tag == T + "int":
            v = ref_scalar.eval_int(text) if ref_scalar.is_int(text) else ref_scalar.INVALID
        elif tag == T + "float":
            v = ref_scalar.eval_float(text) if ref_scalar.is_float(text) else ref_scalar.INVALID
        elif tag == T + "timestamp":
            v = ref_scalar.eval_timestamp(text) if ref_scalar.is_timestamp(text) else ref_scalar.INVALID
        elif tag == T + "binary":
            try:
                return base64.b64decode(text.encode("ascii"), validate=False)
            except (binascii.Error, UnicodeEncodeError):
                raise RefError("bad binary")
        elif tag in (T + "merge", T + "value"):
            raise RefError("merge/value scalar outside key position")
        else:
            raise RefError("scalar with tag %s" % tag)
        if v is ref_scalar.INVALID:
            raise RefError("malformed %s" % tag)
        return v

    def is_merge_key(self, key_node):
        return key_node.tag == T + "merge"

    def key_value(self, key_node):
        if key_node.tag == T + "value" and key_node.id == "scalar":
            v = key_node.value      # '=' as an ordinary mapping key is the string '='
        else:
            v = self.value(key_node)
        try:
            hash(v)
        except TypeError:
            raise RefError("unhashable key")
        return v

    @staticmethod
    def _same_key(d, k):
        for x in d:
            if x == k:
                return x
        return k

    def entries(self, node):
        """Effective entries of a mapping node: list of (key value, value node) with dict semantics, plus has_merge."""
        if node.id != "mapping":
            raise RefError("expected a mapping")
        if id(node) in self.in_progress:
            raise RefError("recursive merge (outside the generated domain)")
        self.in_progress.add(id(node))
        try:
            own = {}
            merges = []
            for key_node, value_node in node.value:
                if self.is_merge_key(key_node):
                    merges.append(value_node)
                else:
                    kv = self.key_value(key_node)
                    if kv in own:
                        # a shadowed occurrence is still part of the document: an ill-shaped value there is an error
                        self.value(own[kv])
                        if type(self._same_key(own, kv)) is not type(kv):
                            self.mixed = True
                    own[kv] = value_node
            inherited = {}
            for mv in merges:                           # a later merge key overrides an earlier one
                if mv.id == "mapping":
                    sources = [mv]
                elif mv.id == "sequence":
                    sources = list(mv.value)
                    for s in sources:
                        if s.id != "mapping":
                            raise RefError("merge list item is not a mapping")
                else:
                    raise RefError("merge value is neither a mapping nor a sequence")
                contrib = {}
                for s in reversed(sources):             # an earlier mapping of the list takes precedence
                    sub, _ = self.entries(s)
                    for k, v in sub.items():
                        if k in contrib:
                            self.value(contrib[k])
                            if type(self._same_key(contrib, k)) is not type(k):
                                self.mixed = True
                    contrib.update(sub)
                for k, v in contrib.items():
                    if k in inherited:
                        self.value(inherited[k])
                        if type(self._same_key(inherited, k)) is not type(k):
                            self.mixed = True
                inherited.update(contrib)
            result = dict(own)
            for k, v in inherited.items():
                if k not in own:
                    result[k] = v
                else:
                    self.value(v)       # shadowed by an own key, but must still be well-formed
                    if type(self._same_key(own, k)) is not type(k):
                        self.mixed = True
            return result, bool(merges)
        finally:
            self.in_progress.discard(id(node))

    def value(self, node):
        tag = node.tag
        if node.id == "scalar":
            return self.scalar(node)
        if node.id == "sequence":
            if tag == T + "seq":
                return [self.value(c) for c in node.value]
            if tag in (T + "omap", T + "pairs"):
                out = []
                for sub in node.value:
                    if sub.id != "mapping":
                        raise RefError("omap/pairs entry is not a mapping")
                    if len(sub.value) != 1:
                        raise RefError("omap/pairs entry does not have exactly one pair")
                    k, v = sub.value[0]
                    if self.is_merge_key(k):
                        raise RefError("merge key inside an omap/pairs entry")
                    if k.tag == T + "value" and k.id == "scalar":
                        # a plain '=' is retagged to a string only where mappings are flattened; as the key of an omap / pairs
                        # entry the library rejects it or not depending on whether that node was flattened before: no claim
                        raise NoClaim("plain '=' as the key of an omap/pairs entry")
                    kv = self.value(k)
                    out.append((kv, self.value(v)))
                return out
            raise RefError("sequence with tag %s" % tag)
        if node.id == "mapping":
            if tag == T + "map":
                outer = getattr(self, "mixed", False)
                self.mixed = False
                ent, has_merge = self.entries(node)
                mixed = self.mixed
                self.mixed = outer          # the flag of an enclosing evaluation survives nested ones
                d = {k: self.value(v) for k, v in ent.items()}
                self.keep.append(d)
                if mixed:
                    self.lenient_ids.add(id(d))
                if not has_merge:
                    self.ordered_ids.add(id(d))
                return d
            if tag == T + "set":
                outer = getattr(self, "mixed", False)
                ent, _ = self.entries(node)
                self.mixed = outer
                for v in ent.values():
                    self.value(v)       # the values of a set are ignored but must be well-formed
                return set(ent)
            raise RefError("mapping with tag %s" % tag)
        raise RefError("unknown node kind")


_ALIVE = []


def evaluate(node):
    """-> (value, ordered_ids).  Raises RefError where the loaders must raise ConstructorError."""
    ev = Evaluator()
    if node is None:
        return None, ev.ordered_ids
    v = ev.value(node)
    ev.ordered_ids.add(("keepalive", id(ev.keep)))
    ev.ordered_ids.add(("lenient", frozenset(ev.lenient_ids)))
    _ALIVE.append(ev.keep)
    del _ALIVE[:-4]
    return v, ev.ordered_ids
