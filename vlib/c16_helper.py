"""Helper interpreter for C16: started with a different PYTHONHASHSEED, it rebuilds the values of a case from their
blueprints (so that its sets and dicts are laid out under *its* hash seed), dumps them and returns the text.

Protocol on stdin/stdout: 4-byte big-endian length + pickle.  Request: (bps, opts, dumper_name, perm_seed).
Reply: ("ok", text) or ("exc", description)."""
import os
import pickle
import struct
import sys


def main():
    verif = os.path.dirname(os.path.dirname(os.path.abspath(__file__)))
    repo = os.environ.get("VERIF_REPO", "/repo")
    sys.path.insert(0, os.path.join(repo, "lib"))
    sys.path.insert(1, verif)
    import yaml
    from vlib import gen_values as gv
    from checks import c16
    inp, out = sys.stdin.buffer, sys.stdout.buffer
    while True:
        head = inp.read(4)
        if len(head) < 4:
            return
        (n,) = struct.unpack(">I", head)
        bps, opts, dname, perm_seed = pickle.loads(inp.read(n))
        try:
            docs = [gv.build(bp)[0] for bp in bps]
            if perm_seed is not None:
                docs = c16.permute(docs, perm_seed)
            text = yaml.dump_all(docs, Dumper=c16.get_dumper(yaml, dname), **opts)
            reply = ("ok", text)
        except BaseException as e:     # reported to the parent, which decides
            reply = ("exc", "%s: %s" % (type(e).__name__, e))
        data = pickle.dumps(reply, 4)
        out.write(struct.pack(">I", len(data)) + data)
        out.flush()


if __name__ == "__main__":
    main()
