"""Regenerate MANIFEST.json from the table below (run: /venv/bin/python tools/mkmanifest.py)."""
import json, os
HERE = os.path.dirname(os.path.dirname(os.path.abspath(__file__)))
props = [json.loads(l) for l in open(os.path.join(HERE, "properties.jsonl"))]

# id -> (category, technique, level text, level note)
CHECKS = {}
NA = {}

def claim(pid, technique, text, note, category="exploration", design=None):
    CHECKS[pid] = dict(category=category, technique=technique, text=text, note=note, design=design or "DESIGN.md section 3, %s" % pid)

exec(open(os.path.join(HERE, "tools", "claims.py")).read())

checks = []
for p in props:
    pid = p["id"]
    if pid in CHECKS:
        c = CHECKS[pid]
        checks.append({
            "property_id": pid,
            "quick_cmd": "./check %s --tier quick" % pid,
            "thorough_cmd": "./check %s --tier thorough" % pid,
            "evidence_file": "evidence/%s.json" % pid,
            "replay_cmd_template": "./check %s --replay {path}" % pid,
            "engine": "hypothesis-pbt",
            "level_claimed": {"category": c["category"], "text": c["text"], "design_ref": c["design"]},
            "level_note": c["note"],
            "technique": c["technique"],
        })
    elif pid not in NA:
        NA[pid] = "check not built yet in this session (planned: property-based test, see DESIGN.md section 3)"
manifest = {
    "version": 1,
    "setup_cmd": "sh ./setup.sh",
    "hooks": {
        "guard": "YAML_PYYAML_VERIF",
        "enable": "no source hooks are needed: every observation point is reachable through the public API, class attributes, sys.addaudithook, sys.setprofile and wrapper streams; ./check exports YAML_PYYAML_VERIF=1 for uniformity only",
        "baseline_off_cmd": "cd /repo && /venv/bin/python -m pytest -ra -q -p no:cacheprovider --timeout=900 --continue-on-collection-errors",
        "source_commits": [],
        "add_only": True,
    },
    "engines": [
        {"name": "hypothesis-pbt", "path": "vlib/runner.py", "serves_properties": sorted(CHECKS),
         "kind_free_text": "Hypothesis 6.168 generators + bounded-exhaustive enumerators, sharded over 16 fresh processes, collect-then-shrink, explicit oracles per property"},
    ],
    "checks": checks,
    "not_applicable": [{"property_id": k, "reason": v} for k, v in sorted(NA.items())],
    "notes": "All checks import yaml from /repo/lib (working tree) at run time; the LibYAML legs use the pre-built extension in /repo/lib/yaml (rebuilt by setup.sh from yaml/_yaml.c if missing). Exit codes: 0 held, 1 VIOLATION, 2 harness error. Known findings: known_findings.jsonl.",
}
json.dump(manifest, open(os.path.join(HERE, "MANIFEST.json"), "w"), indent=1)
print("checks:", [c["property_id"] for c in checks])
print("not_applicable:", sorted(NA))
