#!/bin/sh
# usage: tools/mut.sh <patch.diff> <ID> [<ID>...]   (env TIER=quick|thorough, VERIF_SEED)
# Applies a patch to a scratch copy of /repo (never to /repo), runs the given checks against it
# with VERIF_REPO, prints the VIOLATION lines / exit codes, removes the copy.  Evidence and replay files of
# these runs go to /var/tmp/mutout (VERIF_OUT) because they do not describe /repo.
patch="$1"; shift
d=$(mktemp -d /var/tmp/pyyaml-mut-XXXXXX)
cp -r /repo/lib /repo/tests /repo/yaml "$d"/ 2>/dev/null
( cd "$d" && git init -q . && git apply --unsafe-paths "$patch" ) || { echo "patch failed"; rm -rf "$d"; exit 3; }
cd "$(dirname "$0")/.."
for id in "$@"; do
  out=$(VERIF_REPO="$d" VERIF_OUT=/var/tmp/mutout VERIF_SHRINK_S=0 ./check "$id" --tier "${TIER:-quick}" 2>&1); rc=$?
  echo "== $id rc=$rc $(echo "$out" | grep -c '^VIOLATION') violation line(s)"
  echo "$out" | grep -A2 '^VIOLATION' | cut -c1-300 | head -${LINES_SHOWN:-9}
  echo "$out" | grep 'HARNESS-ERROR' | head -3
done
rm -rf "$d"
