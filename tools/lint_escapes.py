"""Rewrite invisible literal characters in the sources as escapes (they only occur inside string literals)."""
import glob, os
HERE = os.path.dirname(os.path.dirname(os.path.abspath(__file__)))
MAP = {" ": "\\u2028", " ": "\\u2029", "﻿": "\\ufeff", "\x85": "\\x85", "\xa0": "\\xa0"}
for p in glob.glob(HERE + "/checks/*.py") + glob.glob(HERE + "/vlib/*.py") + glob.glob(HERE + "/tools/*.py"):
    if p.endswith("lint_escapes.py"):
        continue
    s = open(p, encoding="utf-8").read()
    t = s
    for k, v in MAP.items():
        t = t.replace(k, v)
    if t != s:
        open(p, "w", encoding="utf-8").write(t)
        print("rewrote", p)
