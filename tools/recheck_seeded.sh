#!/bin/sh
# usage: tools/recheck_seeded.sh <seeded dir name, e.g. C07-3> [extra check ids...]
# Re-runs the quick tier of the property's check (and extras) against a scratch copy with the stored change applied, refreshes
# "checks_run" / "detected_by_quick_tier" in its meta.json and pins the first failing case as regress/<check>/seeded-<name>.json.
# (The confirmation of the change itself - suite green, demo 1/0 - was done by tools/validate_seeded.sh when it was stored.)
name="$1"; shift
id=${name%-*}
cd "$(dirname "$0")/.."
d=seeded/$name
pf="$PWD/$d/patch.diff"; [ -f "$d/patch-rebased.diff" ] && pf="$PWD/$d/patch-rebased.diff"
res=""
for c in "$id" "$@"; do
  r=$(LINES_SHOWN=3 tools/mut.sh "$pf" "$c" 2>&1)
  rc=$(echo "$r" | sed -n 's/^== [A-Z0-9]* rc=\([0-9]*\).*/\1/p')
  bucket=$(echo "$r" | grep -m1 "bucket=" | sed 's/.*bucket=\([^ ]*\).*/\1/')
  [ -z "$rc" ] && rc="patch-failed"
  rp=$(echo "$r" | grep -m1 '^VIOLATION' | sed 's/.*replay=//')
  if [ "$rc" = "1" ] && [ -f "$rp" ]; then
    mkdir -p "regress/$c"; cp "$rp" "regress/$c/seeded-$name.json"
  fi
  res="$res $c:rc=$rc:$bucket"
done
echo "$name checks:$res"
/venv/bin/python - "$name" "$res" <<'PY'
import json, sys
name, res = sys.argv[1:3]
p = "/verif/seeded/%s/meta.json" % name
meta = json.load(open(p))
checks = {}
for item in res.split():
    c, rc, bucket = (item.split(":", 2) + ["", ""])[:3]
    checks[c] = {"quick_exit": rc.replace("rc=", ""), "first_bucket": bucket}
meta["checks_run"] = checks
meta["detected_by_quick_tier"] = sorted(c for c, v in checks.items() if v["quick_exit"] == "1")
hist = json.load(open("/verif/seeded/history.json")).get(name)
if hist:
    meta["first_contact"] = hist["first_contact"]
    meta["strengthening"] = hist["strengthening"]
json.dump(meta, open(p, "w"), indent=1)
PY
