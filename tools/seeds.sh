#!/bin/sh
# usage: tools/seeds.sh <ID> [seeds...]  - run the quick tier at several seeds, print rc + violations
id="$1"; shift
cd "$(dirname "$0")/.."
for s in ${@:-2 3 7 12345}; do
  out=$(VERIF_SEED=$s ./check "$id" --tier quick 2>&1); rc=$?
  echo "seed=$s rc=$rc $(echo "$out" | grep -E '^C[0-9]+ tier' )"
  echo "$out" | grep -A3 '^VIOLATION' | cut -c1-400 | head -24
  echo "$out" | grep 'HARNESS-ERROR' | head -3
done
