#!/venv/bin/python
"""Sensitivity screening with machine-made mutants (not a registered check; results are summarised in DESIGN.md 7.5).

  gen                       enumerate single-token / single-statement mutants of /repo/lib/yaml/*.py -> WORK/mutants.jsonl
  screen [N]                run the repository's test suite against a random sample of N mutants (16 at a time);
                            the ones that keep all tests green are the *survivors* -> WORK/survivors.jsonl
  run [N] [scale]           run the quick tier of the checks mapped to the mutated file against N survivors
                            (4 at a time, VERIF_JOBS=4, VERIF_SCALE=scale, stop at the first check that reports a
                            violation) -> WORK/results.jsonl
  rerun [file]              re-run at full scale the survivors no check caught (or the records listed in file)
  report                    table per file / operator

Everything happens in scratch copies under /var/tmp (VERIF_REPO, VERIF_OUT); /repo and /verif/evidence are not touched.
"""
import ast
import io
import json
import os
import random
import shutil
import subprocess
import sys
import tempfile
import tokenize
from concurrent.futures import ThreadPoolExecutor

WORK = os.environ.get("MUT_WORK", "/var/tmp/mutscreen")
REPO = "/repo"
VERIF = os.path.dirname(os.path.dirname(os.path.abspath(__file__)))
FILES = ["reader", "scanner", "parser", "composer", "constructor", "resolver", "representer", "serializer", "emitter",
         "__init__", "cyaml", "loader", "dumper", "error", "nodes", "events", "tokens"]
CHECKS_FOR = {
    "reader": ["C07", "C03", "C09", "C06", "C18", "C19"],
    "scanner": ["C09", "C06", "C03", "C12", "C18", "C08", "C20", "C07"],
    "parser": ["C09", "C06", "C05", "C11", "C12", "C18", "C03"],
    "composer": ["C13", "C06", "C11", "C03", "C12"],
    "constructor": ["C14", "C08", "C13", "C17", "C02", "C01", "C04", "C10", "C19"],
    "resolver": ["C08", "C10", "C02", "C06", "C19", "C11"],
    "representer": ["C02", "C17", "C08", "C16", "C10", "C19", "C12"],
    "serializer": ["C12", "C16", "C02", "C13", "C11", "C15"],
    "emitter": ["C05", "C15", "C02", "C12", "C06", "C16", "C19"],
    "__init__": ["C11", "C10", "C12", "C15", "C19", "C18", "C01", "C04", "C02", "C17"],
    "cyaml": ["C06", "C01", "C04", "C10", "C11"],
    "loader": ["C01", "C04", "C06", "C10"],
    "dumper": ["C02", "C10", "C15", "C17", "C12", "C11"],
    "error": ["C09", "C03", "C07"],
    "nodes": ["C09", "C13", "C06"],
    "events": ["C09", "C05", "C06"],
    "tokens": ["C09", "C06"],
}
SWAP = {"<": "<=", "<=": "<", ">": ">=", ">=": ">", "==": "!=", "!=": "=="}


def mutants_of(name):
    path = os.path.join(REPO, "lib", "yaml", name + ".py")
    src = open(path, encoding="utf-8").read()
    lines = src.splitlines(keepends=True)
    toks = list(tokenize.generate_tokens(io.StringIO(src).readline))
    out = []

    def repl(tok, new, op):
        (l1, c1), (l2, c2) = tok.start, tok.end
        if l1 != l2:
            return
        line = lines[l1 - 1]
        out.append(dict(file=name, op=op, line=l1, old=line, new=line[:c1] + new + line[c2:]))

    for i, t in enumerate(toks):
        prev = toks[i - 1] if i else None
        nxt = toks[i + 1] if i + 1 < len(toks) else None
        if t.type == tokenize.OP and t.string in SWAP:
            repl(t, SWAP[t.string], "cmp")
        elif t.type == tokenize.NAME and t.string in ("and", "or"):
            repl(t, "or" if t.string == "and" else "and", "bool")
        elif t.type == tokenize.NAME and t.string in ("True", "False"):
            repl(t, "False" if t.string == "True" else "True", "const")
        elif t.type == tokenize.NAME and t.string == "not" and nxt is not None and nxt.string != "in" and (prev is None or prev.string != "is"):
            (l1, c1), (l2, c2) = t.start, nxt.start
            if l1 == l2:
                line = lines[l1 - 1]
                out.append(dict(file=name, op="not", line=l1, old=line, new=line[:c1] + line[c2:]))
        elif t.type == tokenize.NAME and t.string == "not" and nxt is not None and nxt.string == "in":
            (l1, c1), (l2, c2) = t.start, nxt.start
            if l1 == l2:
                line = lines[l1 - 1]
                out.append(dict(file=name, op="notin", line=l1, old=line, new=line[:c1] + line[c2:]))
        elif t.type == tokenize.NAME and t.string == "in" and prev is not None and prev.string != "not":
            line = lines[t.start[0] - 1]
            head = line[:t.start[1]]
            if " for " not in " " + head.lstrip() and not head.lstrip().startswith("for ") and "lambda" not in head:
                repl(t, "not in", "in")
        elif t.type == tokenize.NUMBER and t.string.isdigit():
            n = int(t.string)
            repl(t, str(n + 1), "num+")
            if n >= 1:
                repl(t, str(n - 1), "num-")
        elif t.type == tokenize.STRING and prev is not None and prev.string == "in" and t.start[0] == t.end[0] \
                and t.string[0] in "'\"" and not t.string.startswith(("'''", '"""')):
            try:
                val = ast.literal_eval(t.string)
            except Exception:
                continue
            if isinstance(val, str) and 2 <= len(val) <= 40:
                for k in range(len(val)):
                    repl(t, ascii(val[:k] + val[k + 1:]), "charset-")
    # statement deletion / return None / break<->continue
    tree = ast.parse(src)
    for node in ast.walk(tree):
        if not isinstance(node, (ast.FunctionDef, ast.For, ast.While, ast.If, ast.With, ast.Try)):
            continue
        for field in ("body", "orelse", "finalbody"):
            for stmt in getattr(node, field, []) or []:
                if stmt.lineno != stmt.end_lineno:
                    continue
                line = lines[stmt.lineno - 1]
                ind = line[:len(line) - len(line.lstrip())]
                body = line.strip()
                if isinstance(stmt, (ast.Assign, ast.AugAssign)) or (isinstance(stmt, ast.Expr) and isinstance(stmt.value, ast.Call)):
                    out.append(dict(file=name, op="del", line=stmt.lineno, old=line, new=ind + "pass\n"))
                elif isinstance(stmt, ast.Return) and stmt.value is not None and body != "return None":
                    out.append(dict(file=name, op="retnone", line=stmt.lineno, old=line, new=ind + "return None\n"))
                elif isinstance(stmt, ast.Break):
                    out.append(dict(file=name, op="break", line=stmt.lineno, old=line, new=ind + "continue\n"))
                elif isinstance(stmt, ast.Continue):
                    out.append(dict(file=name, op="continue", line=stmt.lineno, old=line, new=ind + "break\n"))
    good = []
    for m in out:
        if m["old"] == m["new"]:
            continue
        new_src = "".join(lines[:m["line"] - 1] + [m["new"]] + lines[m["line"]:])
        try:
            compile(new_src, path, "exec")
        except SyntaxError:
            continue
        good.append(m)
    return good


def scratch(m):
    d = tempfile.mkdtemp(prefix="pyyaml-ms-", dir="/var/tmp")
    for sub in ("lib", "tests", "yaml"):
        if os.path.exists(os.path.join(REPO, sub)):
            shutil.copytree(os.path.join(REPO, sub), os.path.join(d, sub), symlinks=True)
    for extra in ("pytest.ini", "setup.cfg", "pyproject.toml", "tox.ini", "conftest.py"):
        if os.path.exists(os.path.join(REPO, extra)):
            shutil.copy(os.path.join(REPO, extra), d)
    p = os.path.join(d, "lib", "yaml", m["file"] + ".py")
    lines = open(p, encoding="utf-8").read().splitlines(keepends=True)
    assert lines[m["line"] - 1] == m["old"], "tree changed since gen"
    lines[m["line"] - 1] = m["new"]
    open(p, "w", encoding="utf-8").write("".join(lines))
    return d


def load(name):
    p = os.path.join(WORK, name)
    return [json.loads(l) for l in open(p)] if os.path.exists(p) else []


def append(name, rec):
    with open(os.path.join(WORK, name), "a") as fh:
        fh.write(json.dumps(rec) + "\n")


def key(m):
    return "%s:%d:%s:%s" % (m["file"], m["line"], m["op"], m["new"].strip())


def screen_one(m):
    d = scratch(m)
    try:
        env = dict(os.environ, PYTHONPATH=os.path.join(d, "lib"), PYTHONDONTWRITEBYTECODE="1")
        env.pop("YAML_PYYAML_VERIF", None)
        try:
            r = subprocess.run(["/venv/bin/python", "-m", "pytest", "-q", "-x", "-p", "no:cacheprovider"], cwd=d, env=env,
                               stdout=subprocess.PIPE, stderr=subprocess.STDOUT, timeout=240, text=True)
            tail = r.stdout.strip().splitlines()[-1:] or [""]
            ok = r.returncode == 0 and " passed" in tail[0] and "failed" not in tail[0] and "error" not in tail[0]
        except subprocess.TimeoutExpired:
            ok, tail = False, ["timeout"]       # a mutant that hangs the suite counts as killed by it
        return dict(m, survived=ok, tail=tail[0][:120])
    finally:
        shutil.rmtree(d, ignore_errors=True)


def run_one(m, scale, jobs, checks=None):
    d = scratch(m)
    res = dict(m, scale=scale, ran=[], caught_by=None, lines=[])
    try:
        for c in checks or CHECKS_FOR[m["file"]]:
            env = dict(os.environ, VERIF_REPO=d, VERIF_OUT=os.path.join(d, "out"), VERIF_SHRINK_S="0", VERIF_JOBS=str(jobs),
                       VERIF_SCALE=str(scale), VERIF_WATCHDOG="900")
            try:
                r = subprocess.run([os.path.join(VERIF, "check"), c, "--tier", "quick"], cwd=VERIF, env=env,
                                   stdout=subprocess.PIPE, stderr=subprocess.STDOUT, timeout=1500, text=True)
                out, rc = r.stdout, r.returncode
            except subprocess.TimeoutExpired:
                out, rc = "TIMEOUT", 9
            res["ran"].append([c, rc])
            viol = [l[:260] for l in out.splitlines() if l.startswith("VIOLATION")]
            harn = [l[:260] for l in out.splitlines() if "HARNESS-ERROR" in l]
            if viol or rc not in (0,):
                res["caught_by"] = c if viol else None
                res["lines"] = (viol or harn or [out[-300:]])[:2]
                if viol:
                    break
                res.setdefault("abnormal", []).append([c, rc, (harn or [out[-200:]])[0][:200]])
        return res
    finally:
        shutil.rmtree(d, ignore_errors=True)


def main():
    os.makedirs(WORK, exist_ok=True)
    cmd = sys.argv[1]
    if cmd == "gen":
        allm = []
        for f in FILES:
            ms = mutants_of(f)
            print(f, len(ms))
            allm += ms
        with open(os.path.join(WORK, "mutants.jsonl"), "w") as fh:
            for m in allm:
                fh.write(json.dumps(m) + "\n")
        print("total", len(allm))
    elif cmd == "screen":
        n = int(sys.argv[2]) if len(sys.argv) > 2 else 400
        par = int(os.environ.get("MUT_PAR", "12"))
        done = {key(m) for m in load("screened.jsonl")}
        pool = [m for m in load("mutants.jsonl") if key(m) not in done]
        random.Random(int(os.environ.get("MUT_SEED", "1"))).shuffle(pool)
        pool = pool[:n]
        with ThreadPoolExecutor(par) as ex:
            for r in ex.map(screen_one, pool):
                append("screened.jsonl", r)
                if r["survived"]:
                    append("survivors.jsonl", r)
                print(("SURVIVED " if r["survived"] else "killed   ") + key(r)[:110], flush=True)
    elif cmd in ("run", "rerun"):
        if cmd == "run":
            n = int(sys.argv[2]) if len(sys.argv) > 2 else 50
            scale = float(sys.argv[3]) if len(sys.argv) > 3 else 0.25
            done = {key(m) for m in load("results.jsonl")}
            # the emitter's column / line bookkeeping only steers where lines are folded (no listed property constrains the width)
            pool = [m for m in load("survivors.jsonl") if key(m) not in done
                    and not (m["file"] == "emitter" and ("self.column" in m["old"] or "self.line " in m["old"]))][:n]
            outname = "results.jsonl"
        else:
            scale = 1.0
            done = {key(m) for m in load("results_full.jsonl")}
            caught = {key(m) for m in load("results.jsonl") if m["caught_by"]}
            pool = [m for m in load("results.jsonl") if not m["caught_by"] and key(m) not in done and key(m) not in caught]
            if len(sys.argv) > 2:       # a hand-picked subset (one JSON record per line) instead of every uncaught mutant
                pool = [m for m in (json.loads(l) for l in open(sys.argv[2])) if key(m) not in done]
            outname = "results_full.jsonl"
        par = int(os.environ.get("MUT_PAR", "4"))
        jobs = int(os.environ.get("MUT_JOBS", "4"))
        with ThreadPoolExecutor(par) as ex:
            for r in ex.map(lambda m: run_one(m, scale, jobs), pool):
                append(outname, r)
                print("%-8s %s  ran=%s" % (r["caught_by"] or "UNCAUGHT", key(r)[:120], ",".join("%s" % c for c, _ in r["ran"])), flush=True)
                for a in r.get("abnormal", []):
                    print("   ABNORMAL", a, flush=True)
    elif cmd == "report":
        scr = load("screened.jsonl")
        res = {key(m): m for m in load("results.jsonl")}
        for m in load("results_full.jsonl"):
            if m["caught_by"] or key(m) not in res:
                res[key(m)] = m
            else:
                res[key(m)]["full"] = True
        print("mutants generated: %d; screened with the test suite: %d; survived the suite: %d" % (
            len(load("mutants.jsonl")), len(scr), sum(1 for m in scr if m["survived"])))
        print("survivors run against the checks: %d; caught: %d" % (len(res), sum(1 for m in res.values() if m["caught_by"])))
        byf = {}
        for m in res.values():
            a = byf.setdefault(m["file"], [0, 0])
            a[0] += 1
            a[1] += bool(m["caught_by"])
        for f, (t, c) in sorted(byf.items()):
            print("  %-12s %3d run, %3d caught" % (f, t, c))
        print("uncaught:")
        for m in res.values():
            if not m["caught_by"]:
                print("  %s:%d [%s] %s -> %s" % (m["file"], m["line"], m["op"], m["old"].strip()[:70], m["new"].strip()[:70]))


if __name__ == "__main__":
    main()
