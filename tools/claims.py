claim("C02", "property-based round-trip testing (Hypothesis generators, type-strict graph bisimulation oracle)",
      "Generated search: value graphs (sharing, recursion) x full dump-option product x {Safe,CSafe}Dumper x {Safe,CSafe}Loader, "
      "plus a string-focused arm placing generated strings at 8 nesting shapes; oracle is an inverse (round trip) compared by "
      "type-strict bisimulation. Finds counterexamples, does not establish absence.",
      "Trusted: Hypothesis, the bisimulation in vlib/compare.py, CPython. Two known findings are excluded by a predicate over the case "
      "(sub-minute UTC offsets; libyaml folding inside more-indented lines).")
