claim("C02", "property-based round-trip testing (Hypothesis generators, type-strict graph bisimulation oracle)",
      "Generated search: value graphs (sharing, recursion) x full dump-option product x {Safe,CSafe}Dumper x {Safe,CSafe}Loader, "
      "plus a string-focused arm placing generated strings at 8 nesting shapes; oracle is an inverse (round trip) compared by "
      "type-strict bisimulation. Finds counterexamples, does not establish absence.",
      "Trusted: Hypothesis, the bisimulation in vlib/compare.py, CPython. Two known findings are excluded by a predicate over the case "
      "(sub-minute UTC offsets; libyaml folding inside more-indented lines).")
claim("C03", "grammar-based and mutation fuzzing with explicit escape/directive/header productions (Hypothesis), exception-class + mark-range + call-budget oracle",
      "Generated search over str/bytes/stream inputs (StringIO/BytesIO and file-like objects whose name is an int, None, bytes, str or missing, with short reads; valid renderings, grammar-aware and byte-level mutations, explicit productions, all truncations of small "
      "documents) x scan/parse/compose_all x both back-ends; oracle: only YAMLError subclasses escape, pure-Python work stays under a call budget, error marks "
      "lie inside the (decoded) input and pure-Python line/column equal an independent break count.",
      "Trusted: Hypothesis, vlib/ref_marks.py, sys.monitoring call counting. Hangs inside libyaml are only caught by the run watchdog. One known finding "
      "(UnicodeDecodeError from the C bridge on invalid UTF-8 in %XX escapes; _yaml.pyx cannot be rebuilt here).")
claim("C05", "property-based round-trip testing of event streams (Hypothesis grammar generator) + bounded-exhaustive ill-formed sequences",
      "Generated search: well-formed event streams x emitter options x {Dumper,CDumper} x {Loader,CLoader}, oracle = event equivalence (structure, anchors, scalar "
      "values, tags modulo licensed elision, directives); ill-formed arm = single-edit mutants + every sequence over the 10 event kinds up to length 4 (quick) / 5 "
      "(thorough), oracle = EmitterError or clean return.",
      "Trusted: Hypothesis, the equivalence in vlib/gen_events.py. Known findings excluded by case predicates: libyaml folding inside more-indented lines; libyaml "
      "dropping an empty implicit first document.")
claim("C06", "differential testing of the two back-ends on grammar-generated portable documents and on dumper/emitter outputs (Hypothesis), with expected events known by construction",
      "Generated search: documents rendered from an abstract portable-subset grammar (expected events known by construction) and texts produced by both dumpers/emitters; "
      "events, node graphs and objects of Base/Safe/Full/Unsafe loader pairs must agree between back-ends (and with the expectation); the four named malformed classes must "
      "raise the same exception class on both sides; the same comparisons for a pair of application loaders customised alike on both back-ends (path resolvers, implicit resolver, constructors), for short-read streams and around the length limits.",
      "Trusted: Hypothesis, the renderer in vlib/gen_docs.py (validated against both back-ends), vlib/compare.py. The non-specific tag '!' is a listed known finding and texts "
      "containing it are compared at event level only.")
claim("C09", "grammar-based fuzzing + bounded-exhaustive enumeration (short strings, token sequences fed to a stub-driven parser) against independent grammar acceptors and a reference line/column counter",
      "Generated and exhaustive search: every string of length <=4 (quick) / <=5 (thorough) over a 20-symbol indicator alphabet, rendered/mutated/production inputs, and every token "
      "sequence of length <=4/<=5 over 20 token kinds fed directly to the parser; oracle = independent recursive-descent acceptor of the documented token grammar that derives the events, "
      "event-grammar acceptor, mark range/monotonicity/no-overlap, reference (line,column) count, source-slice equality for plain scalars/anchors/aliases; the same through short-read text streams and for UTF-8(+BOM) / UTF-16 byte input (positions refer to the decoded characters).",
      "Trusted: vlib/ref_events.py, vlib/ref_marks.py. LibYAML marks are checked for range/monotonicity only. Two libyaml known findings (UnicodeDecodeError in the bridge; '[?]]' accepted).")
claim("C08", "bounded-exhaustive enumeration of scalar texts + generated members/near-members, against a hand-written YAML 1.1 scalar recogniser/evaluator (reference model)",
      "Every string of length <=4 (quick) / <=5 (thorough) over a 30-symbol alphabet and generated members/near-members of every type production are classified by the resolvers of the "
      "loader and dumper classes (Python and C) and loaded by both safe loaders; the oracle is an independent character-level recogniser/evaluator of the YAML 1.1 type repository; "
      "the dump direction round-trips look-alike strings and generated ints/floats/bools/None/dates/datetimes under every default_style on both back-ends.",
      "Trusted: vlib/ref_scalar.py (the reference grammar is written out in its docstring), CPython float()/datetime for value arithmetic.")
claim("C12", "property-based round-trip testing of multi-document streams at three levels (values, node graphs, events) with a metamorphic prefix-independence relation (Hypothesis)",
      "Generated search: lists of 0..5 documents weighted towards the boundary roots the property names (empty / open-ended scalars, keep-chomped block scalars, empty and alias-only "
      "collections, directives) x dump options x both dumpers x both loaders at value, node and event level; oracle: exactly n documents come back, each equal to its input, and the text "
      "for the first k documents is a prefix of the text for all n (modulo the '...' STREAM-END adds after an open-ended last document).",
      "Trusted: Hypothesis, vlib/compare.py, the node equality in checks/c12.py, the event equivalence of C05. Two libyaml-emitter known findings are excluded by case predicates.")
claim("C15", "property-based testing with validity predicates over the raw dump output, incl. an independent recursive-descent parser of the canonical form (Hypothesis)",
      "Generated search: value graphs / node graphs / event streams x full option product (incl. out-of-range indent, invalid line_break, all encodings, stream or return value) x both dumpers; "
      "oracle = one predicate per clause of the property over the raw output: own scanner accepts it; ASCII-only without allow_unicode; every CR/LF break is the effective line_break; "
      "str/bytes/BOM per encoding; per-document '---' / '...' / %YAML / %TAG token counts; block-entry indentation a multiple of the effective indent; canonical output accepted by "
      "vlib/canonical_ref.py with the same events as the library's parse (and the input events).",
      "Trusted: vlib/canonical_ref.py (written from the canonical grammar, shares nothing with the library or tests/canonical.py), the pure-Python scanner for token kinds/columns used by "
      "the directive and indentation predicates (its positions are checked independently by C09). One libyaml known finding excluded by a case predicate.")
claim("C01", "grammar-based generation of hostile tagged documents with effect monitors (audit hook, profile hook, sys.modules diff, canary objects) and a static table check (Hypothesis)",
      "Generated search: abstract documents whose tag slots are drawn from every python/* tag form x a catalogue of dangerous and canary names x every tag registered anywhere in the "
      "library, at root/item/value/key/set/omap/pairs/merge/'=' positions with anchors and aliases, delivered as str and bytes to safe_load(_all), SafeLoader, CSafeLoader, BaseLoader, "
      "CBaseLoader in one process (so state leaking between loader classes is exercised). Oracle: YAMLError or a result of the allowed exact types; no import/exec/open/os.system audit "
      "event, no new module, no Python call outside lib/yaml + stdlib, no call of a named object, no canary record; a non-core tag at a dispatched position must give ConstructorError; "
      "the effective constructor tables are exactly the 12 core tags + None.",
      "Trusted: the position classification of vlib/safety.py (which nodes the constructor dispatches on), sys.setprofile/sys.addaudithook. One known finding (non-core tags on "
      "structurally consumed nodes are ignored, not rejected) is excluded by the position predicate.")
claim("C04", "grammar-based generation of hostile tagged documents with effect monitors (audit hook, profile hook, sys.modules diff, canary objects), also after an UnsafeLoader pre-load in the same process (Hypothesis)",
      "Generated search: the C01 document generator with every python/* form x names (attributes of imported modules, unimported modules/packages on sys.path, builtins, dotted and garbled names) "
      "with args/kwds/state/listitems/dictitems content, loaded by full_load(_all), FullLoader, CFullLoader; a second arm loads the same (canary-only) document with UnsafeLoader first. Oracle: "
      "no import/exec/open audit event, sys.modules unchanged, no call outside lib/yaml + stdlib or of a named object, no canary record; results hold only plain data, tuples, complex and "
      "objects identical to an attribute of a module imported before the load; object/new/apply/module tags at dispatched positions give ConstructorError; static FullLoader tables.",
      "Trusted: vlib/safety.py position classification and monitors. PEP 562 modules are outside the catalogue.")
claim("C14", "property-based testing against a reference model: an independent non-mutating evaluator of the composed node graph implementing the merge/set/omap/pairs rules literally (Hypothesis)",
      "Generated search: documents of mappings with colliding keys, one or several merge keys (mapping, alias, list, alias to an anchored list, nested, shared sources reused), quoted '<<', "
      "ill-shaped merge values, !!set / !!omap / !!pairs of every shape, unhashable keys; SafeLoader and CSafeLoader, each document loaded twice. Oracle: vlib/ref_construct.py says either the "
      "value (compared type-strictly on values, by dict equality on keys, key order for merge-free mappings) or 'ill-shaped', in which case exactly ConstructorError must be raised.",
      "Trusted: vlib/ref_construct.py, vlib/ref_scalar.py, and yaml.compose for the node graph. Recursive merges are outside the generated domain.")
claim("C13", "property-based testing of generated alias graphs: parallel walk of the loaded object graph (and the composed node graph) against the abstract graph, bijection oracle; single-defect ill-formed arm (Hypothesis)",
      "Generated search: abstract graphs (list, dict, set, omap, pairs, scalars; python/tuple, python/object and YAMLObject instances with and without __setstate__, instances as keys) with aliases to "
      "finished nodes and to ancestors, one or two documents, delivered as str or through text / byte streams in small pieces; Safe/Full/Unsafe x pure-Python/LibYAML loaders and compose. Oracle: the relation abstract node <-> Python object built by a "
      "parallel walk must be a bijection and contents must match; exactly one injected defect (undefined/forward alias, alias into the previous document, duplicate anchor, container as "
      "its own key or set member) must raise ComposerError / ConstructorError; no RecursionError; call budget.",
      "Trusted: the renderer/expectation and the construction-order model simulate() in checks/c13.py, which decides which cycles the documented two-phase algorithm can build; the listed "
      "known finding (a cycle first reached in deep mode is rejected) is exactly what that model predicts and is re-checked on its pinned input.")
claim("C16", "metamorphic property-based testing: insertion-order permutation, helper interpreters with other PYTHONHASHSEED values, dump-load-dump fixed point, per-document anchor numbering (Hypothesis)",
      "Generated search: value graphs (1-3 documents, sharing, recursion) whose containers draw keys from one mutually comparable class x dump options x both dumpers. Relations: sort_keys on => "
      "identical text after permuting every container's insertion order and in interpreters started with PYTHONHASHSEED 1 and 4242 rebuilding the value from its blueprint; sort_keys off => "
      "reloaded dict order is insertion order; dump(load(dump(x))) == dump(x) with either loader; every document defines exactly the anchors id001..idNNN. Values include application-tagged scalars written by private "
      "dumper subclasses under a tags= option with nested / overlapping prefixes (the handle chosen must not depend on hash seed or insertion order).",
      "Trusted: Hypothesis, vlib/compare.py, the helper protocol in vlib/c16_helper.py. Multi-member sets under sort_keys=False are outside the property and excluded by construction.")
claim("C07", "metamorphic property-based testing over delivery forms and read-size schedules (Hypothesis) plus exhaustive single split positions of small documents",
      "Generated search: valid / reader-clean erroneous / single-reader-defect texts, padded to straddle refill boundaries, delivered as str, UTF-8, UTF-8+BOM, UTF-16-LE/BE+BOM bytes, StringIO, BytesIO and "
      "short-read text/byte streams with drawn read-size schedules (splits inside UTF-8 sequences, UTF-16 units and surrogate pairs, between CR and LF, in the BOM) x scan/parse/compose_all/load_all x both "
      "back-ends; oracle: every form gives the str form's item sequence incl. line/column of every mark (index up to the BOM shift) and the same final error; reader defects are reported as ReaderError "
      "with the injected character at the right character offset / an identical byte offset for every chunking, after a prefix of the longest delivery.",
      "Trusted: Hypothesis and the chunked stream classes in checks/c07.py. LibYAML forms are compared with the LibYAML str form.")
claim("C10", "model-based testing of operation histories (Hypothesis-generated lists of registration/subclassing operations, shrunk as one value; exhaustive short histories) against an executable model of the copy-on-write registries",
      "Generated histories over a growing class lattice rooted at all shipped loader/dumper classes (subclassing incl. diamonds, the six add_* class methods, the module-level helpers with and without "
      "explicit Loader=/Dumper=, YAMLObject subclasses with class/list loaders); after every step every class's effective table for every registry kind must equal the model's, no two owners may share a "
      "table object or a per-character resolver list, and every few steps the winner of probe loads / dumps / resolutions must be the one the rule predicts for every class, through every module-level entry point that takes Loader= / Dumper= (load, load_all, compose, compose_all, parse, dump, dump_all, serialize, serialize_all).",
      "Trusted: vlib/registry_model.py. Histories share one process; the shipped classes' registries are restored and fingerprint-checked after each history.")
claim("C11", "history-based testing: Hypothesis-generated call sequences run in children forked from a pristine process, compared step by step with the same call run alone, plus a digest of all package-level state; metamorphic stream-vs-single-document relation",
      "Generated histories (up to 30 steps, plus same-item focused histories) over ~200 public calls x a pool of valid and failing inputs, values, event lists, generators abandoned after k items, both back-ends and user "
      "subclasses with path resolvers; every step's outcome must equal the outcome of that call in its own pristine child and the digest of every module/class-level container of the package must not change. "
      "Streams of 2-5 generated documents must parse/compose/load item-wise like the documents alone; handles, anchors, %YAML and alias numbering must not carry over to the next document.",
      "Trusted: os.fork from a process that imported yaml but never called it as a stand-in for a fresh interpreter; the digest in vlib/c11_pool.py (state hidden inside C objects or closures is not seen by it, only by outcomes).")
claim("C18", "property-based testing with an instrumented stream (monitor of consumed offset and read() calls at every delivery) and a metamorphic tail-length relation (Hypothesis)",
      "Generated streams of 1-10 documents of sizes from empty to several refill blocks, tokens longer than a block, explicit '...' ends, one optionally malformed document (incl. content directly after '...'), "
      "tails of 0-20 blocks, text or byte delivery with drawn read sizes x scan/parse/compose_all/load_all x both back-ends. Oracle: at the delivery of document k at most two refill blocks (4096 / 16384) beyond "
      "its end were consumed, the same amount when the tail is four times longer, a bounded number of read() calls; documents before a malformed one are delivered before its error (the error it gives alone); "
      "closing the generator disposes the loader, reads nothing more and frees the loader object at once (checked with the cyclic collector off, after 0, 1 and several items; UTF-8 and UTF-16 byte streams).",
      "Trusted: the block constants 4096 / 16384 (what the unchanged library requests) and the offsets computed by the generator.")
claim("C19", "fault injection with per-case enumeration of every fault index (write, flush, read, user constructor/multi-constructor/representer/multi-representer/YAMLObject callbacks), cases generated by Hypothesis",
      "For every generated case the fault-free run counts the invocations of the caller's object; the run is then repeated with a unique exception object raised at each invocation index (runs above 250 invocations: "
      "first 80, last 80, even sample), for nine exception types incl. TypeError/KeyError/AttributeError and a BaseException subclass, on both back-ends and on user classes with path resolvers. Oracle: the "
      "exception reaching the caller is the injected object, unchained; what was written is a prefix of the fault-free output; afterwards a fixed dump/load battery and a new call with the same class give their "
      "reference results and the digest of the package's global state is unchanged.",
      "Trusted: the instrumented writer/reader in checks/c19.py; faults are exceptions raised at call boundaries of the caller's objects.", category="fault_enumeration")
claim("C20", "metamorphic size-doubling test over a catalogue of parameterised document/value families, work measured as a deterministic count of Python-level calls (sys.monitoring), parameters drawn by Hypothesis",
      "54 load families (given as str, text stream, byte stream or UTF-16 bytes) and 25 dump families (to a string or a stream) (every scalar style on one and many lines, escapes, block/flow entries, single-line flow collections, many documents, anchors, many aliases to one node, doubling alias "
      "chains, comments, blank and space runs, long keys, tags, merges, numbers, binary, sets/omaps; lists, dicts, sets, strings per style, shared objects, unicode, controls, floats) at sizes n, 2n, 4n with "
      "drawn filler word / line break / indent / key length / dump options; oracle: calls(2n)/calls(n) <= 2.15, calls(4n)/calls(2n) <= 2.15, second-difference ratio <= 2.3. Every family is run at least "
      "once per run with default parameters.",
      "Trusted: sys.monitoring PY_START counting (vlib/monitors.py). Work inside single C calls is invisible; the property is stated in interpreter-level calls.")
claim("C17", "differential property-based testing against pickle protocol 2 as reference: generated object graphs over a class family with one class per reduction shape, compared by a graph bisimulation incl. the sharing partition (Hypothesis)",
      "Generated object graphs (instance dict, __slots__ with/without __dict__, __getstate__/__setstate__, __getnewargs__, __reduce__ with 2-5 items, subclasses of list/dict/set/tuple/str/int, enum, namedtuple, frozen "
      "dataclass, tuples, complex, frozenset, OrderedDict, bytearray, range, Decimal, Fraction, timedelta, named classes/functions/builtins; modules in a separate arm) with sharing and constructible / unconstructible "
      "cycles, instances as keys and set members; Dumper/CDumper x UnsafeLoader/CUnsafeLoader/Loader must rebuild a graph bisimilar to pickle.loads(pickle.dumps(obj, 2)) (classes, state, sharing partition, cycles; "
      "an unconstructible cycle may instead give ConstructorError); FullLoader/CFullLoader accept exactly the texts without python/object*/module tags.",
      "Trusted: pickle, the bisimulation in checks/c17.py, the class family in canaries/canary_objs.py (order-insensitive between state and items, because copy and pickle apply them in different orders). "
      "Four known findings are excluded by case predicates or by construction (deep-mode cycles, state-hashed keys, empty tuple subclass, complex negative zero).")
