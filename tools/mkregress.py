"""Pin the saved inputs of fixed defects / findings into regress/<ID>/ (committed replay tier)."""
import os, sys
sys.path.insert(0, os.path.dirname(os.path.dirname(os.path.abspath(__file__))))
from vlib import runner
runner.setup_paths()
S = runner.save_regress

# ---- C02
S("C02", "scalar", "F5-nel-allow-unicode", ("\x85", "root", {"allow_unicode": True}), "fixed 93695ab")
S("C02", "scalar", "F5-nel-twice", ("%$\xf3^\x85\xcf^", "twice", {"allow_unicode": True, "width": None}), "fixed 93695ab")
S("C02", "scalar", "F6-dq-refold", ("\n\n \n", "deep4", {"width": 5}), "fixed (double-quoted refold)")
S("C02", "scalar", "F6-dq-refold-canonical", (" ,wordbaz\U0001F600 ,word", "deep3", {"canonical": True, "width": 5}), "fixed (double-quoted refold)")
S("C02", "scalar", "F7-folded-more-indented", ("a\n  word word word word word word word word end\nb", "root", {"default_style": ">", "width": 20}), "fixed 4c8ba10 (py); known finding for libyaml")
S("C02", "value", "F10-redefined-handle", (("set", [("s", 1)]), {"tags": {"!!": "tag:example.com,2000:"}}, False), "fixed f63df50")
S("C02", "value", "F10-redefined-primary", (("l", [("s", "a")]), {"tags": {"!": "!my-"}, "default_style": '"'}, False), "fixed f63df50")
S("C02", "value", "F4-nonascii-prefix", (("l", [("s", 1)]), {"tags": {"!e!": "tag:\xe9x.org,2000:"}}, True), "fixed b3af4ec")


# ---- C03
S("C03", "productions", "F1-U-overflow", ('"\\UFFFFFFFF"', False), "fixed 1e19272")
S("C03", "productions", "F1-U-110000", ('- "\\U00110000"\n- x', True), "fixed 1e19272")
S("C03", "productions", "F2-yaml-digits", ("%YAML 1." + "7" * 5000 + "\n--- a\n", False), "fixed bbdbd41")
S("C03", "productions", "F2-yaml-digits-major", ("%YAML " + "7" * 4301, False), "fixed bbdbd41")

# ---- C05 (events as plain-data streams)
_doc = lambda root, **kw: dict({"version": None, "tags": None, "explicit_start": False, "explicit_end": False, "root": root}, **kw)
S("C05", "wellformed", "F4-nonascii-prefix", ([_doc(("scalar", False, "tag:\xe9x.org,2000:a", (False, False), "v", None), tags={"!e!": "tag:\xe9x.org,2000:"})], {}), "fixed b3af4ec")
S("C05", "wellformed", "F10-redefined-secondary", ([_doc(("seq", False, "tag:yaml.org,2002:str", False, None, []), tags={"!!": "tag:example.com,2000:"})], {}), "fixed f63df50")
S("C05", "wellformed", "F10-redefined-primary", ([_doc(("scalar", False, "!local", (False, False), "v", None), tags={"!": "!my-"})], {}), "fixed f63df50")
S("C05", "wellformed", "F8-empty-root-elided-tag", ([_doc(("scalar", False, "tag:yaml.org,2002:null", (True, False), "", None))], {}), "fixed fc98091")
S("C05", "scalar", "F7-folded", ([_doc(("scalar", False, None, (True, True), "a\n  word word word word word word word word end\nb", ">"))], {"width": 20}), "fixed 4c8ba10")
S("C05", "scalar", "F5-nel", ([_doc(("scalar", False, None, (True, True), "a\x85b", None))], {"allow_unicode": True}), "fixed 93695ab")
print("ok2")

# ---- C08
for i, t in enumerate(["0x_", "0b_", "-0b_", "2001-13-01", "2001-02-30", "0000-01-01", "2001-01-01 10:00:00 +24:00", "2001-01-01 24:00:00", "2001-1-1 1:00:60"]):
    S("C08", "members", "F3-%d" % i, t, "fixed edc269e")
print("ok3")

# ---- second build session
S("C02", "scalar", "F14-astral-simple-key", ("\U0001F600" * 110, "key", {}), "fixed aefa98e")
S("C02", "scalar", "F14-astral-simple-key-nested", ("\U0001F600" * 104, "deep4", {"default_flow_style": True}), "fixed aefa98e")
_d = lambda root: {"handles": False, "redefine": False, "explicit": False, "root": root}
S("C01", "docs", "F11-timestamp-value-key", (_d(("eq", "timestamp", ("s", None, False, "x"), False)), False, False), "fixed 850a7f1")
S("C01", "docs", "F12-recursive-value-chain", (_d(("eq", "str", ("a", 0), True)), False, False), "fixed 8efee00")
S("C01", "docs", "F12-recursive-value-chain-binary", (_d(("q", None, False, [("eq", "binary", ("eq", "str", ("a", 0), False), True)])), True, True), "fixed 8efee00")
S("C17", "graphs", "F13-slots-with-empty-dict", (("slotsdict", ("s", 3), []), {}), "fixed 0152072")
S("C17", "graphs", "F13-slots-with-dict", (("l", [("slotsdict", ("s", 3), [("name", ("s", "x"))]), ("slotsdict", ("l", []), [])]), {}), "fixed 0152072")
print("ok4")

# ---- third build session
S("C05", "parsed", "F15-flow-indicator-shorthand-text", ("!, ", 6), "fixed 6326f9e")
S("C05", "wellformed", "F15-flow-indicator-shorthand", ([_doc(("seq", False, None, True, True, [("scalar", False, "!a,b[c]", (False, False), "x", None), ("scalar", False, "tag:yaml.org,2002:a,b", (False, False), "y", None)]))], {}), "fixed 6326f9e")
S("C08", "members", "F16-sexagesimal-overflow", "1" + ":00" * 180 + ".5", "fixed 41882dc")
S("C08", "members", "F16-sexagesimal-overflow-neg", "-1" + ":59" * 200 + ".0", "fixed 41882dc")
S("C08", "members", "F16-sexagesimal-zero-digits", "0" + ":00" * 200 + ".5", "fixed 41882dc")
print("ok5")
