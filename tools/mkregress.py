"""Pin the saved inputs of fixed defects / findings into regress/<ID>/ (committed replay tier)."""
import os, sys
sys.path.insert(0, os.path.dirname(os.path.dirname(os.path.abspath(__file__))))
from vlib import runner
runner.setup_paths()
S = runner.save_regress

# ---- C02
S("C02", "scalar", "F5-nel-allow-unicode", ("\x85", "root", {"allow_unicode": True}), "fixed 93695ab")
S("C02", "scalar", "F5-nel-twice", ("%$\xf3^\x85\xcf^", "twice", {"allow_unicode": True, "width": None}), "fixed 93695ab")
S("C02", "scalar", "F6-dq-refold", ("\n\n \n", "deep4", {"width": 5}), "fixed (double-quoted refold)")
S("C02", "scalar", "F6-dq-refold-canonical", (" ,wordbaz\U0001F600 ,word", "deep3", {"canonical": True, "width": 5}), "fixed (double-quoted refold)")
S("C02", "scalar", "F7-folded-more-indented", ("a\n  word word word word word word word word end\nb", "root", {"default_style": ">", "width": 20}), "fixed 4c8ba10 (py); known finding for libyaml")
S("C02", "value", "F10-redefined-handle", (("set", [("s", 1)]), {"tags": {"!!": "tag:example.com,2000:"}}, False), "fixed f63df50")
S("C02", "value", "F10-redefined-primary", (("l", [("s", "a")]), {"tags": {"!": "!my-"}, "default_style": '"'}, False), "fixed f63df50")
S("C02", "value", "F4-nonascii-prefix", (("l", [("s", 1)]), {"tags": {"!e!": "tag:\xe9x.org,2000:"}}, True), "fixed b3af4ec")
print("ok")
