"""usage: mkmut.py <name> <file-relative-to-repo> <old> <new>   -> /var/tmp/muts/<name>.diff (old must be unique)"""
import sys, difflib, os
name, file, old, new = sys.argv[1:5]
old = old.encode().decode("unicode_escape"); new = new.encode().decode("unicode_escape")
s = open("/repo/" + file).read()
assert s.count(old) == 1, "old occurs %d times" % s.count(old)
t = s.replace(old, new)
os.makedirs("/var/tmp/muts", exist_ok=True)
open("/var/tmp/muts/%s.diff" % name, "w").write("".join(difflib.unified_diff(s.splitlines(True), t.splitlines(True), "a/" + file, "b/" + file)))
print("/var/tmp/muts/%s.diff" % name)
