"""Renderer self-test: expected events vs both back-ends (development aid, not a registered check)."""
import sys, os, collections
sys.path.insert(0, os.path.dirname(os.path.dirname(os.path.abspath(__file__))))
from vlib import runner; runner.setup_paths()
import yaml
from hypothesis import given, settings, seed, HealthCheck, Phase
from vlib import gen_docs as gd

def actual(text, L):
    out = []
    for e in yaml.parse(text, Loader=L):
        n = type(e).__name__
        if n == "StreamStartEvent": out.append(("SS",))
        elif n == "StreamEndEvent": out.append(("SE",))
        elif n == "DocumentStartEvent": out.append(("DS", bool(e.explicit), e.version, e.tags))
        elif n == "DocumentEndEvent": out.append(("DE", bool(e.explicit)))
        elif n == "ScalarEvent": out.append(("SC", e.anchor, e.tag, e.value, bool(e.implicit[0])))
        elif n == "AliasEvent": out.append(("AL", e.anchor))
        elif n == "SequenceStartEvent": out.append(("QS", e.anchor, e.tag, bool(e.flow_style)))
        elif n == "SequenceEndEvent": out.append(("QE",))
        elif n == "MappingStartEvent": out.append(("MS", e.anchor, e.tag, bool(e.flow_style)))
        elif n == "MappingEndEvent": out.append(("ME",))
    return out

stats = collections.Counter(); examples = {}
N = int(sys.argv[1]) if len(sys.argv) > 1 else 2000
S = int(sys.argv[2]) if len(sys.argv) > 2 else 1
@seed(S)
@settings(max_examples=N, database=None, deadline=None, suppress_health_check=list(HealthCheck), phases=[Phase.generate])
@given(gd.streams())
def t(stream):
    r = gd.render(stream)
    exp = [tuple(e) for e in r.events]
    # plain flag with tag: implicit[0] false when tagged
    exp = [(e[0], e[1], e[2], e[3], e[4] and e[2] is None) if e[0] == "SC" else e for e in exp]
    res = {}
    for name, L in (("py", yaml.Loader), ("c", yaml.CLoader)):
        try:
            res[name] = actual(r.text, L)
        except Exception as ex:
            res[name] = "%s: %s" % (type(ex).__name__, str(ex).replace("\n", " ")[:150])
    stats["n"] += 1
    for f in r.features: stats["f:" + f] += 1
    key = None
    if res["py"] != exp and res["c"] != exp: key = "both-differ" + ("-same" if res["py"] == res["c"] else "")
    elif res["py"] != exp: key = "py-differs"
    elif res["c"] != exp: key = "c-differs"
    if key:
        stats[key] += 1
        if key not in examples or len(r.text) < len(examples[key][0]):
            examples[key] = (r.text, exp, res)
t()
for k, v in sorted(stats.items()): print(k, v)
for k, (text, exp, res) in examples.items():
    print("=====", k); print(repr(text)); print(text)
    for name in ("py", "c"):
        a = res[name]
        if isinstance(a, str): print(name, "ERROR", a); continue
        for i, (x, y) in enumerate(zip(exp, a)):
            if x != y: print(name, "first diff at", i, "expected", x, "got", y); break
        else:
            if len(exp) != len(a): print(name, "length", len(exp), len(a))
