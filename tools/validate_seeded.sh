#!/bin/sh
# usage: tools/validate_seeded.sh <ID> <k> [extra check ids...]
# Confirms a sub-agent's seeded change in its scratch worktree (suite passes with it; demo exits 1 with it and 0 without),
# runs the property's quick check (and any extra checks) against a scratch copy of /repo with the change applied, and
# stores patch + demo + meta.json under seeded/<ID>-<k>/.
id="$1"; k="$2"; shift 2
# env SRC: directory of the sub-agent deliverables (default /tmp/wt/out); env NAME: number used in seeded/<ID>-<NAME>
src=${SRC:-/tmp/wt/out}/$id/$k; wt=/tmp/wt/$id; name=${NAME:-$k}
[ -f "$src/patch.diff" ] || { echo "$id/$k: no patch"; exit 1; }
cd "$wt" && git checkout -q -- . && git apply "$src/patch.diff" || { echo "$id/$k: patch does not apply in its worktree"; exit 1; }
tests=$(PYTHONPATH=$wt/lib /venv/bin/python -m pytest -q -p no:cacheprovider 2>&1 | tail -1)
PYTHONPATH=$wt/lib timeout 300 /venv/bin/python "$src/demo.py" >/dev/null 2>&1; with=$?
git checkout -q -- .
PYTHONPATH=$wt/lib timeout 300 /venv/bin/python "$src/demo.py" >/dev/null 2>&1; without=$?
cd /verif
out=seeded/$id-$name; mkdir -p "$out"; cp "$src/patch.diff" "$src/demo.py" "$out/"; [ -f "$src/notes.md" ] && cp "$src/notes.md" "$out/"
res=""
for c in "$id" "$@"; do
  pf="/verif/$out/patch.diff"; [ -f "/verif/$out/patch-rebased.diff" ] && pf="/verif/$out/patch-rebased.diff"
  r=$(LINES_SHOWN=3 tools/mut.sh "$pf" "$c" 2>&1)
  rc=$(echo "$r" | sed -n 's/^== [A-Z0-9]* rc=\([0-9]*\).*/\1/p')
  bucket=$(echo "$r" | grep -m1 "bucket=" | sed 's/.*bucket=\([^ ]*\).*/\1/')
  [ -z "$rc" ] && rc="patch-failed"
  # pin the first failing case as a committed regression input of that check (it passes on the unchanged tree)
  rp=$(echo "$r" | grep -m1 '^VIOLATION' | sed 's/.*replay=//')
  if [ "$rc" = "1" ] && [ -f "$rp" ] && [ "${PIN:-1}" = "1" ]; then
    mkdir -p "regress/$c"; cp "$rp" "regress/$c/seeded-$id-$name.json"
  fi
  res="$res $c:rc=$rc:$bucket"
done
echo "$id/$name tests=[$tests] demo_with=$with demo_without=$without checks:$res"
/venv/bin/python - "$id" "$name" "$tests" "$with" "$without" "$res" "$(git -C $wt log --format=%h -1)" <<'PY'
import json, sys, os
id_, k, tests, w, wo, res, base = sys.argv[1:8]
out = "/verif/seeded/%s-%s" % (id_, k)
notes = open(out + "/notes.md").read() if os.path.exists(out + "/notes.md") else ""
checks = {}
for item in res.split():
    c, rc, bucket = (item.split(":", 2) + ["", ""])[:3]
    checks[c] = {"quick_exit": rc.replace("rc=", ""), "first_bucket": bucket}
meta = {"property": id_, "source": "independent sub-agent given only the property text and its own scratch worktree",
        "base_commit": base + " (the /repo HEAD when the scratch worktree was created)",
        "what_it_needs_to_manifest": notes.strip()[:1500],
        "confirmed": {"suite_with_change": tests, "demo_exit_with_change": int(w), "demo_exit_without_change": int(wo),
                      "how": "git apply in the scratch worktree /tmp/wt/%s; pytest -q -p no:cacheprovider; demo.py with PYTHONPATH=<worktree>/lib; git checkout -- .; demo.py again" % id_},
        "checks_run": checks,
        "detected_by_quick_tier": sorted(c for c, v in checks.items() if v["quick_exit"] == "1")}
hist = json.load(open("/verif/seeded/history.json")).get("%s-%s" % (id_, k))
meta["first_contact"] = hist["first_contact"] if hist else "caught by the quick tier as it stood"
if hist:
    meta["strengthening"] = hist["strengthening"]
if os.path.exists(out + "/patch-rebased.diff"):
    meta["rebased_patch"] = "patch-rebased.diff applies to the current /repo HEAD; patch.diff applies to base_commit"
json.dump(meta, open(out + "/meta.json", "w"), indent=1)
PY
