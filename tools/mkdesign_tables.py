"""Rewrite the generated tables of DESIGN.md (between <!-- BEGIN:name --> and <!-- END:name --> markers) from the
seeded/*/meta.json files and known_findings.jsonl.   Run: /venv/bin/python tools/mkdesign_tables.py"""
import glob, json, os, re
HERE = os.path.dirname(os.path.dirname(os.path.abspath(__file__)))


def seeded_table():
    rows = ["| change | property | what it needs to manifest (author's words, abridged) | suite with change | demo with / without | first contact | quick tier now |",
            "|---|---|---|---|---|---|---|"]
    for d in sorted(glob.glob(os.path.join(HERE, "seeded", "C*-*"))):
        m = json.load(open(os.path.join(d, "meta.json")))
        name = os.path.basename(d)
        need = " ".join(m.get("what_it_needs_to_manifest", "").split())
        need = re.sub(r"^#+\s*", "", need)[:200].replace("|", "/")
        c = m["confirmed"]
        det = ", ".join("%s (%s)" % (k, v["first_bucket"][:50]) for k, v in m["checks_run"].items() if v["quick_exit"] == "1") or "MISSED"
        rows.append("| %s | %s | %s | %s | %s / %s | %s | %s |" % (
            name, m["property"], need, c["suite_with_change"].replace(" in ", " ").split(" ")[0] + " passed", c["demo_exit_with_change"],
            c["demo_exit_without_change"], m.get("first_contact", "").split(";")[0][:80], det.replace("|", "/")))
    return "\n".join(rows)


def findings_table():
    rows = ["| status | property | key | what |", "|---|---|---|---|"]
    for line in open(os.path.join(HERE, "known_findings.jsonl")):
        r = json.loads(line)
        props = ", ".join([r["property"]] + r.get("properties", []))
        what = r.get("what") or r.get("record", "")
        rows.append("| %s%s | %s | `%s` | %s |" % (r["status"], " " + r["commit"] if r.get("commit") else "", props, r["key"], what[:330].replace("|", "/")))
    return "\n".join(rows)


def strengthenings_list():
    h = json.load(open(os.path.join(HERE, "seeded", "history.json")))
    rows = []
    for k in sorted(h, key=lambda x: (x.split("-")[0], int(x.split("-")[1]))):
        v = h[k]
        rows.append("* %s (%s): %s" % (k, v["first_contact"].split(";")[0][:90], v["strengthening"]))
    return "\n".join(rows)


def main():
    p = os.path.join(HERE, "DESIGN.md")
    s = open(p, encoding="utf-8").read()
    for name, fn in (("seeded", seeded_table), ("findings", findings_table), ("strengthenings", strengthenings_list)):
        a, b = "<!-- BEGIN:%s -->" % name, "<!-- END:%s -->" % name
        if a in s and b in s:
            i, j = s.index(a) + len(a), s.index(b)
            s = s[:i] + "\n" + fn() + "\n" + s[j:]
    open(p, "w", encoding="utf-8").write(s)


if __name__ == "__main__":
    main()
