import argparse
import os
import sys

sys.path.insert(0, os.path.dirname(os.path.abspath(__file__)))
from vlib import runner


def main():
    ap = argparse.ArgumentParser()
    ap.add_argument("prop")
    ap.add_argument("--tier", default=os.environ.get("VERIF_TIER") or "quick", choices=["quick", "thorough"])
    ap.add_argument("--replay", default=None)
    ap.add_argument("--jobs", type=int, default=None)
    a = ap.parse_args()
    try:
        rc = runner.main(a.prop.upper(), a.tier, a.replay, a.jobs)
    except SystemExit:
        raise
    except BaseException:
        import traceback
        traceback.print_exc()
        print("HARNESS-ERROR: uncaught exception in runner", file=sys.stderr)
        rc = 2
    sys.exit(rc)


if __name__ == "__main__":
    main()
