#!/bin/sh
# Offline setup: make sure hypothesis is importable in /venv and the LibYAML extension exists.
set -u
cd "$(dirname "$0")"
export PIP_NO_INDEX=1
/venv/bin/python -c "import hypothesis" 2>/dev/null || \
    /venv/bin/pip install --no-index --find-links /opt/veriftools/wheels hypothesis || exit 1
if ! /venv/bin/python -c "import sys; sys.path.insert(0,'/repo/lib'); import yaml._yaml" 2>/dev/null; then
    if [ -f /repo/yaml/_yaml.c ]; then
        inc=$(/venv/bin/python -c "import sysconfig; print(sysconfig.get_paths()['include'])")
        suf=$(/venv/bin/python -c "import sysconfig; print(sysconfig.get_config_var('EXT_SUFFIX'))")
        gcc -shared -fPIC -O1 -I"$inc" -I/repo/yaml /repo/yaml/_yaml.c -lyaml -o "/repo/lib/yaml/_yaml$suf" \
            || echo "setup: could not build the LibYAML extension; C legs will be skipped"
    else
        echo "setup: no LibYAML extension and no generated _yaml.c; C legs will be skipped"
    fi
fi
mkdir -p evidence replays
/venv/bin/python -X utf8 -c "
import sys; sys.path.insert(0,'/repo/lib'); sys.path.insert(0,'.')
import yaml, hypothesis
print('setup ok: yaml', yaml.__version__, 'libyaml', yaml.__with_libyaml__, 'hypothesis', hypothesis.__version__)"
